//! C09 — URL normalisation is canonical: rules and requests agree on equivalent URLs.
use crate::engine::*;
use crate::gen::config_strategy;
use crate::spec::*;
use percent_encoding::{utf8_percent_encode, AsciiSet, CONTROLS};
use proptest::prelude::*;
use redirectionio::action::Action;
use redirectionio::http::Request;
use serde::{Deserialize, Serialize};
use serde_json::Value;

#[derive(Serialize, Deserialize, Clone, Debug, PartialEq)]
pub struct Case {
    pub config: ConfigSpec,
    /// path as written (starts with '/')
    pub path: String,
    /// query parameters as written: (key, Some(value) | None for "key only"); decoded keys are distinct under case folding
    pub params: Vec<(String, Option<String>)>,
    /// marketing parameters (key from the configured set, simple value) and the positions they are spliced in at
    pub marketing: Vec<(u8, String, String)>,
    /// redirect target: 0 `/t`, 1 `/t#frag`, 2 `/t?x=1#frag`, 3 `/t?x=1`, 4 `/t#/route?tab=1`, 5 `/t?x=1#a?b`
    #[serde(default)]
    pub target_kind: u8,
    /// an empty parameter (`=`, empty key and empty value) is spliced into the query; like a repeated key, only P1 / P4 / P6 are then required
    #[serde(default)]
    pub empty_param: Option<u8>,
    /// permutation keys for the query
    pub perm: Vec<u16>,
    /// position selector for the single-character mutation
    pub mutate_at: u16,
    /// a repeated key: (index of the parameter whose key is repeated, position it is inserted at, its other value).
    /// Only P1 / P4 / P6 apply then (the statement requires distinct keys for the other relations).
    #[serde(default)]
    pub repeat: Option<(u8, u8, String)>,
    /// the rule also declares a marker, used in its host only (its path and query stay literal)
    #[serde(default)]
    pub host_marker: bool,
}

const PATH_ATOMS: &[&str] = &[
    "a", "B", "foo", "Bar", "x1", "Z9", "-", ".", "_", "~", "!", "$", "&", "'", "(", ")", "*", "+", ",", ";", "=", ":", "@", " ", "\"", "<", ">", "%41", "%2F", "%c3", "é", "日本",
];
const KEY_ATOMS: &[&str] = &["a", "b", "B", "k", "Z1", "_0", "x", "id", "Q", "-", ".", "~", "%20", "é", "+", "key", "utm", "y2", "%2520"];

/// Spellings that are easily confused once a query is decoded and written again (D48): a member of a group is replaced by another one
/// and the result is kept as a P2 candidate when the *decoded* strings differ.
const CONFUSABLE: &[&[&str]] = &[&["%2520", "%20", "+", "%2B", "%252B", "%25", " "], &["%2541", "%41", "A", "b"], &["%252f", "%2f", "/", "%2F"]];

fn respellings(v: &str) -> Vec<String> {
    let mut alts = Vec::new();
    for group in CONFUSABLE {
        for member in group.iter() {
            let mut from = 0;
            while let Some(i) = v[from..].find(member) {
                let at = from + i;
                for other in group.iter().filter(|o| *o != member) {
                    alts.push(format!("{}{}{}", &v[..at], other, &v[at + member.len()..]));
                }
                from = at + member.len();
            }
        }
    }
    alts
}
const VAL_ATOMS: &[&str] = &["1", "2", "v", "V", "foo", "+", "%20", "%2B", "é", "日本", "'", "(", "*", "!", ":", "@", "/", "?", "%41", " ", "\"", "<", ">", "~", ",", ";", "$", "%2f", "%25", "%2520", "%252B", "%2541"];

fn decode(s: &str) -> String {
    url::form_urlencoded::parse(format!("{s}=").as_bytes()).next().map(|(k, _)| k.into_owned()).unwrap_or_default()
}

pub fn query_of(params: &[(String, Option<String>)]) -> String {
    params.iter().map(|(k, v)| match v { Some(v) => format!("{k}={v}"), None => k.clone() }).collect::<Vec<_>>().join("&")
}

pub fn url_of(path: &str, params: &[(String, Option<String>)]) -> String {
    if params.is_empty() {
        path.to_string()
    } else {
        format!("{path}?{}", query_of(params))
    }
}

// what a forwarded parameter must keep encoded inside a target URL: the request-side set plus what delimits parameters or starts an escape
const SKIPPED_SET: &AsciiSet = &CONTROLS.add(b' ').add(b'"').add(b'#').add(b'<').add(b'>').add(b'+').add(b'%').add(b'&').add(b'=');

fn matches(router: &redirectionio::router::Router<redirectionio::api::Rule>, uri: &str) -> (bool, Request) {
    // (the host only matters to the rules that carry a host marker)
    let req = RequestSpec { uri: uri.to_string(), host: Some("acme.example.org".to_string()), ..Default::default() }.build(&router.config);
    let m = router.match_request(&req).iter().any(|r| r.id() == "u");
    (m, req)
}

fn swap_ascii_case_outside_escapes(s: &str) -> String {
    let mut out = String::new();
    let mut skip = 0;
    for c in s.chars() {
        if skip > 0 {
            skip -= 1;
            out.push(c);
            continue;
        }
        if c == '%' {
            skip = 2;
            out.push(c);
            continue;
        }
        out.push(if c.is_ascii_lowercase() { c.to_ascii_uppercase() } else if c.is_ascii_uppercase() { c.to_ascii_lowercase() } else { c });
    }
    out
}

/// positions (byte offsets) of ASCII alphanumerics outside percent escapes
fn mutable_positions(s: &str) -> Vec<usize> {
    let b = s.as_bytes();
    let mut v = Vec::new();
    let mut i = 0;
    while i < b.len() {
        if b[i] == b'%' {
            i += 3;
            continue;
        }
        if b[i].is_ascii_alphanumeric() {
            v.push(i);
        }
        i += 1;
    }
    v
}

fn mutate_char(c: u8) -> u8 {
    match c {
        b'0'..=b'8' => c + 1,
        b'9' => b'0',
        b'z' => b'a',
        b'Z' => b'A',
        _ => c + 1,
    }
}

fn mutate_at(s: &str, pos: usize) -> String {
    let mut b = s.as_bytes().to_vec();
    b[pos] = mutate_char(b[pos]);
    String::from_utf8(b).unwrap()
}

pub fn check(case: &Case) -> Outcome {
    let mut out = Outcome::new();
    out.evals = 0;
    let cfg = &case.config;
    let mut params_owned = case.params.clone();
    let mut repeated = false;
    if let Some((idx, pos, val)) = &case.repeat {
        if !params_owned.is_empty() {
            let key = params_owned[*idx as usize % params_owned.len()].0.clone();
            let at = *pos as usize % (params_owned.len() + 1);
            params_owned.insert(at, (key, Some(val.clone())));
            repeated = true;
        }
    }
    if let Some(pos) = case.empty_param {
        let at = pos as usize % (params_owned.len() + 1);
        params_owned.insert(at, (String::new(), Some(String::new())));
        repeated = true;
    }
    let case = &Case { params: params_owned, ..case.clone() };
    let u = url_of(&case.path, &case.params);
    // kinds 4 and 5 (round 4): a fragment that itself holds a question mark (client-side routes)
    let target = ["/t", "/t#frag", "/t?x=1#frag", "/t?x=1", "/t#/route?tab=1", "/t?x=1#a?b"][case.target_kind as usize % 6];
    // forwarded parameters go in front of the fragment
    let with_params = |p: &str| -> String {
        let (base, frag) = match target.find('#') {
            Some(i) => (&target[..i], &target[i..]),
            None => (target, ""),
        };
        format!("{base}{}{p}{frag}", if base.contains('?') { '&' } else { '?' })
    };
    let mut rule = RuleSpec::simple("u", &case.path);
    rule.source.query = if case.params.is_empty() { None } else { Some(query_of(&case.params)) };
    rule.target = Some(target.to_string());
    rule.status_code = Some(301);
    if case.host_marker {
        rule.source.host = Some("@shop.example.org".to_string());
        rule.markers = vec![MarkerSpec { name: "shop".to_string(), regex: "[a-z]+".to_string(), transformers: Vec::new() }];
        out.class("marker-in-host-only");
    }
    let decoy = RuleSpec::simple("decoy", "/decoy-never-requested");
    let router = build_router(cfg, &[rule, decoy]);

    // P1: the rule built from u matches the request for u
    out.evals += 1;
    let (m, req_u) = matches(&router, &u);
    if !m {
        out.fail(format!("P1: rule with source path {:?} query {:?} does not match the request for {:?} (normalised request: {:?})", case.path, query_of(&case.params), u, req_u.path_and_query_skipped));
        return out;
    }

    // P6: re-normalising changes nothing
    out.evals += 1;
    let again = Request::rebuild_with_config(&router.config, &req_u);
    let (j1, j2) = (serde_json::to_string(&req_u).unwrap(), serde_json::to_string(&again).unwrap());
    if j1 != j2 {
        out.fail(format!("P6: rebuild(rebuild(q)) != rebuild(q) for {u:?}: {j2} vs {j1}"));
        return out;
    }

    if repeated {
        out.class("repeated-key(P1,P6 only)");
        out.nontrivial = true;
        return out;
    }

    // P3: any permutation of the query
    if case.params.len() >= 2 {
        out.evals += 1;
        let permuted = crate::props::c05::shuffled(&case.params, &case.perm);
        let up = url_of(&case.path, &permuted);
        if !matches(&router, &up).0 {
            out.fail(format!("P3: rule from {u:?} does not match the same URL with its query permuted: {up:?}"));
            return out;
        }
        if permuted != case.params {
            out.class("P3:permuted");
        }
    }

    // P2: a different path / key / value must not match
    let decoded_keys: Vec<String> = case.params.iter().map(|(k, _)| decode(k).to_lowercase()).collect();
    let mut candidates: Vec<(String, &'static str)> = Vec::new();
    for p in mutable_positions(&case.path) {
        candidates.push((url_of(&mutate_at(&case.path, p), &case.params), "path"));
    }
    for (i, (k, v)) in case.params.iter().enumerate() {
        for p in mutable_positions(k) {
            let nk = mutate_at(k, p);
            let dk = decode(&nk).to_lowercase();
            if decoded_keys.contains(&dk) || cfg.marketing_query_params.contains(&decode(&nk)) {
                continue;
            }
            let mut ps = case.params.clone();
            ps[i].0 = nk;
            candidates.push((url_of(&case.path, &ps), "key"));
        }
        if let Some(v) = v {
            for p in mutable_positions(v) {
                let mut ps = case.params.clone();
                ps[i].1 = Some(mutate_at(v, p));
                candidates.push((url_of(&case.path, &ps), "value"));
            }
        }
    }
    if !candidates.is_empty() {
        out.evals += 1;
        let (other, what) = &candidates[(case.mutate_at as usize * candidates.len()) >> 16];
        // the mutated character differs under case folding too (letters move to the next letter, digits to the next digit)
        if matches(&router, other).0 {
            out.fail(format!("P2: rule from {u:?} matches {other:?} which differs in one character of its {what}"));
            return out;
        }
        out.class(match *what {
            "path" => "P2:path",
            "key" => "P2:key",
            _ => "P2:value",
        });
    }

    // P2 (respelled): a value or key written with another escape is another parameter whenever the decoded strings differ
    let fold = |s: &str| if cfg.ignore_path_and_query_case { decode(s).to_lowercase() } else { decode(s) };
    let mut respelled: Vec<String> = Vec::new();
    for (i, (k, v)) in case.params.iter().enumerate() {
        for nk in respellings(k) {
            let dk = decode(&nk).to_lowercase();
            if fold(&nk) == fold(k) || dk.is_empty() || decoded_keys.contains(&dk) || cfg.marketing_query_params.iter().any(|m| m.to_lowercase() == dk) {
                continue;
            }
            let mut ps = case.params.clone();
            ps[i].0 = nk;
            respelled.push(url_of(&case.path, &ps));
        }
        if let Some(v) = v {
            for nv in respellings(v) {
                if fold(&nv) == fold(v) {
                    continue;
                }
                let mut ps = case.params.clone();
                ps[i].1 = Some(nv);
                respelled.push(url_of(&case.path, &ps));
            }
        }
    }
    if !respelled.is_empty() {
        out.evals += 1;
        let other = &respelled[(case.mutate_at as usize * respelled.len()) >> 16];
        if matches(&router, other).0 {
            out.fail(format!("P2: rule from {u:?} matches {other:?} whose decoded query parameters differ (respelled escape)"));
            return out;
        }
        out.class("P2:respelled");
    }

    // P5: ASCII case swap matches iff the case flag is set (URLs without marketing parameters)
    let swapped = swap_ascii_case_outside_escapes(&u);
    if swapped != u {
        out.evals += 1;
        let ms = matches(&router, &swapped).0;
        if cfg.ignore_path_and_query_case && !ms {
            out.fail(format!("P5: with ignore_path_and_query_case the rule from {u:?} does not match {swapped:?}"));
            return out;
        }
        if !cfg.ignore_path_and_query_case && ms {
            out.fail(format!("P5: without ignore_path_and_query_case the rule from {u:?} matches {swapped:?}"));
            return out;
        }
        out.class(if cfg.ignore_path_and_query_case { "P5:case-insensitive" } else { "P5:case-sensitive" });
    }

    // P4: marketing parameters
    if !case.marketing.is_empty() && !cfg.marketing_query_params.is_empty() {
        out.evals += 1;
        let mut ps = case.params.clone();
        let mut added: Vec<(String, String)> = Vec::new();
        for (pos, k, v) in &case.marketing {
            if added.iter().any(|(x, _)| decode(x) == decode(k)) || !cfg.marketing_query_params.contains(&decode(k)) {
                continue;
            }
            let at = (*pos as usize) % (ps.len() + 1);
            ps.insert(at, (k.clone(), Some(v.clone())));
            added.push((k.clone(), v.clone()));
        }
        if !added.is_empty() {
            let um = url_of(&case.path, &ps);
            let (mm, reqm) = matches(&router, &um);
            if cfg.ignore_marketing_query_params {
                if !mm {
                    out.fail(format!("P4: marketing parameters are ignored but the rule from {u:?} does not match {um:?}"));
                    return out;
                }
                let routes = router.match_request(&reqm);
                let mut action = Action::from_routes_rule(routes.clone(), &reqm, None);
                let headers = action.filter_headers(Vec::new(), 0, false, None);
                let loc = headers.iter().find(|h| h.name == "Location").map(|h| h.value.clone());
                added.sort_by_key(|(k, _)| decode(k));
                let skipped: Vec<String> = added
                    .iter()
                    .map(|(k, v)| {
                        let dv = decode(v);
                        if dv.is_empty() { utf8_percent_encode(&decode(k), SKIPPED_SET).to_string() } else { format!("{}={}", utf8_percent_encode(&decode(k), SKIPPED_SET), utf8_percent_encode(&dv, SKIPPED_SET)) }
                    })
                    .collect();
                let exp = if cfg.pass_marketing_query_params_to_target { with_params(&skipped.join("&")) } else { target.to_string() };
                if loc.as_deref() != Some(exp.as_str()) {
                    out.fail(format!("P4: request {um:?}: Location is {:?}, expected {:?} (pass flag {})", loc, exp, cfg.pass_marketing_query_params_to_target));
                    return out;
                }
                let tgt = routes.iter().find(|r| r.id() == "u").and_then(|r| Action::get_target(r, &reqm));
                if tgt.as_deref() != Some(exp.as_str()) {
                    out.fail(format!("P4: request {um:?}: Action::get_target is {:?}, expected {:?}", tgt, exp));
                    return out;
                }
                out.class(if cfg.pass_marketing_query_params_to_target { "P4:passed-to-target" } else { "P4:dropped" });
                // P4+P5: under the case flag the letter case of a marketing parameter does not matter either
                if cfg.ignore_path_and_query_case {
                    let swapped = swap_ascii_case_outside_escapes(&um);
                    let (ms, _) = matches(&router, &swapped);
                    if !ms {
                        out.fail(format!("P4+P5: marketing parameters and letter case are ignored, the rule from {u:?} matches {um:?} but not its case swap {swapped:?}"));
                        return out;
                    }
                    out.class("P4+P5:case-swapped-marketing");
                }
            } else {
                // not ignored: they are ordinary parameters, the URL is a different one
                if mm {
                    out.fail(format!("P4: marketing parameters are not ignored but the rule from {u:?} matches {um:?}"));
                    return out;
                }
                out.class("P4:not-ignored");
            }
        }
    }

    let unsorted = {
        let ks: Vec<String> = case.params.iter().map(|(k, _)| decode(k)).collect();
        ks.windows(2).any(|w| w[0] > w[1])
    };
    let special = u.contains('%') || u.contains('+') || !u.is_ascii() || u.contains(' ') || u.contains('"') || u.contains('<');
    if unsorted {
        out.class("unsorted-query");
    }
    if special {
        out.class("encoded/non-ascii/plus");
    }
    out.nontrivial = (case.params.len() >= 2 && unsorted) || special || !case.marketing.is_empty();
    out
}

fn atoms(pool: &'static [&'static str], min: usize, max: usize) -> BoxedStrategy<String> {
    prop::collection::vec(0..pool.len(), min..=max).prop_map(move |v| v.into_iter().map(|i| pool[i]).collect::<String>()).boxed()
}

pub fn strategy() -> BoxedStrategy<Case> {
    let path = prop::collection::vec(atoms(PATH_ATOMS, 1, 3), 0..=4).prop_map(|segs| format!("/{}", segs.join("/")));
    let param = (atoms(KEY_ATOMS, 1, 2), prop_oneof![1 => Just(None), 1 => Just(Some(String::new())), 6 => atoms(VAL_ATOMS, 1, 3).prop_map(Some)]);
    let params = prop::collection::vec(param, 0..=4);
    let marketing = prop::collection::vec((any::<u8>(), 0usize..12, pick(vec!["x".to_string(), "news letter".to_string(), "a+b".to_string(), "%C3%A9".to_string(), "".to_string(), "50%25ad".to_string(), "news%26mail".to_string(), "a%3Db".to_string(), "%2541".to_string()])), 0..=2);
    let repeat = prop::option::weighted(0.12, (any::<u8>(), any::<u8>(), pick(vec!["1".to_string(), "2".to_string(), "".to_string(), "%41".to_string(), "x+y".to_string()])));
    (config_strategy(), path, params, marketing, prop::collection::vec(any::<u16>(), 4), any::<u16>(), (repeat, prop::bool::weighted(0.25), 0u8..6, prop::option::weighted(0.08, any::<u8>())))
        .prop_map(|(config, path, params, marketing, perm, mutate_at, (repeat, host_marker, target_kind, empty_param))| {
            // keep decoded keys distinct under case folding, non-empty, and outside the marketing set
            let mut seen: Vec<String> = Vec::new();
            let mut ps = Vec::new();
            for (k, v) in params {
                let dk = decode(&k);
                let f = dk.to_lowercase();
                if dk.is_empty() || seen.contains(&f) || config.marketing_query_params.iter().any(|m| m.to_lowercase() == f) {
                    continue;
                }
                seen.push(f);
                ps.push((k, v));
            }
            // spellings as a URL carries them; the configured names are their decoded forms
            let all = ["utm_source", "utm_medium", "utm_campaign", "utm_term", "utm_content", "ref", "gclid", "r%C3%A9f", "r\u{e9}f", "ad%20id", "ad+id", "c%2B"];
            let marketing = marketing.into_iter().map(|(pos, k, v)| (pos, all[k].to_string(), v)).collect();
            Case { config, path, params: ps, marketing, target_kind, empty_param, perm, mutate_at, repeat, host_marker }
        })
        .boxed()
}

pub fn run(ctx: &Ctx) -> Report {
    let mut rep = Report::new(
        "C09",
        "case = router config (all 64 flag combinations x 4 marketing sets, one with names the encoder escapes: r\u{e9}f, 'ad id', 'c+') x URL (0..4 path segments and 0..4 query parameters over an alphabet with both letter cases, digits, sub-delims, space, quotes, <, >, +, %xx escapes, non-ASCII; decoded keys distinct, plus in ~12% of the cases one repeated key for which only P1 and P6 are required) x marketing parameters x permutation x mutation point; \
         oracle (metamorphic, through the caller flow Request::new + rebuild_with_config): P1 rule_from(u) matches req(u); P2 it does not match u with one alphanumeric of the path, a key or a value replaced; P3 match is invariant under query permutation; \
         P4 marketing parameters are ignored iff configured, and Location / Action::get_target == target + skipped parameters iff the pass flag; P5 ASCII case swap matches iff the case flag; P6 rebuild(rebuild(q)) == rebuild(q); \
         non-trivial = >=2 parameters not in sorted order, or an encoded / non-ASCII / '+' / space / quote character, or a marketing parameter; distinct by case hash",
    );
    rep.assume("URL characters are those the http crate accepts in a path-and-query after sanitising (no back-tick, backslash, braces, '#'); no encoded delimiters (%26, %3D, %23) inside keys or values; rule sources do not mention ignored marketing keys; mutations and case swaps leave percent escapes alone");
    rep.add(run_part(ctx, "urls", ctx.cases(1_000_000, 40_000_000), strategy, check, &[]));
    rep
}

pub fn replay(_part: &str, case: &Value) -> Result<Outcome, String> {
    replay_case::<Case, _>(case, check)
}
