// Inputs for which the UNCHANGED library violates property C07 ("... body filtering ... never panic,
// overflow the stack or loop forever").
//
// A stack overflow cannot be caught: it kills the process (SIGABRT / SIGSEGV).  So each scenario runs in a child
// process (this same test binary, started again with SIDE_CHILD set) and the parent test checks how the child ended.
// Every scenario runs on a thread with an 8 MiB stack - the usual size of the main thread of an nginx / apache worker -
// to show that the overflow is not an artefact of the 2 MiB stack of the test threads.
//
// 1. selector_with_a_long_combinator_chain (fails in debug AND in release builds)
//    rule: HTML body filter `append_child` on html > body with a css_selector made of N = 50 000 adjacent sibling
//    combinators: `i+i+...+i+b` (a 100 KB string; `evaluate()` only limits the nesting of parentheses);
//    response body: <body> with N `<i></i>` followed by one `<b></b>` (350 KB).
//    `scraper` / `selectors` match a complex selector right to left with one level of recursion per combinator:
//    `Html::select()` recurses N levels deep and overflows the stack.  (Same thing with N descendant combinators
//    `div div ... div` and N nested `<div>`.)  Measured thresholds with a 2 MiB stack: about 10 000 combinators in a
//    release build, fewer in a debug build.
//
// 2. large_inline_script (fails in unoptimised builds only)
//    any HTML body filter; response body with one `<script>` element holding 1 MB of text, given as one chunk.
//    `html::Tokenizer::read_script_data()` and the other `read_script_data_*` states call each other once per byte.
//    In a release build LLVM turns these tail calls into jumps (checked up to 40 MB), in a debug build each byte
//    takes a stack frame: a script of 50-80 KB overflows a 2 MiB stack, 1 MB overflows 8 MiB.

use redirectionio::api::{BodyFilter, HTMLBodyFilter};
use redirectionio::filter::FilterBodyAction;
use redirectionio::http::Header;
use std::process::Command;

fn filter_body(css_selector: Option<String>, body: Vec<u8>) -> Vec<u8> {
    // what `Action::create_filter_body` builds for a rule with this body filter
    let filter: BodyFilter = serde_json::from_value(serde_json::json!({
        "action": "append_child",
        "value": "<p>appended</p>",
        "element_tree": ["html", "body"],
        "css_selector": css_selector,
        "id": "f",
        "target_hash": "h",
    }))
    .expect("cannot deserialize body filter");
    assert!(matches!(filter, BodyFilter::HTML(HTMLBodyFilter { .. })));

    let headers = vec![Header {
        name: "Content-Type".to_string(),
        value: "text/html".to_string(),
    }];
    let mut action = FilterBodyAction::new(vec![filter], &headers);
    let mut output = action.filter(body, None);
    output.extend(action.end(None));

    output
}

fn scenario(name: &str) {
    match name {
        "selector" => {
            let n = 50_000;
            let selector = format!("{}b", "i+".repeat(n));
            let body = format!("<html><head></head><body>{}<b></b></body></html>", "<i></i>".repeat(n));
            let output = filter_body(Some(selector), body.into_bytes());

            // the selector matches: nothing is appended
            assert!(!String::from_utf8_lossy(&output).contains("appended"));
        }
        "script" => {
            let body = format!(
                "<html><head><script>{}</script></head><body></body></html>",
                "a".repeat(1_000_000)
            );
            let output = filter_body(None, body.into_bytes());

            assert!(String::from_utf8_lossy(&output).ends_with("<p>appended</p></body></html>"));
        }
        other => panic!("unknown scenario {other}"),
    }
}

// Not a test by itself: does nothing unless started by `run_in_child_process`
#[test]
fn child() {
    if let Ok(name) = std::env::var("SIDE_CHILD") {
        std::thread::Builder::new()
            .stack_size(8 * 1024 * 1024)
            .spawn(move || scenario(name.as_str()))
            .expect("cannot spawn thread")
            .join()
            .expect("scenario panicked");
    }
}

fn run_in_child_process(name: &str) {
    let output = Command::new(std::env::current_exe().expect("no current exe"))
        .args(["--exact", "child", "--test-threads", "1"])
        .env("SIDE_CHILD", name)
        .output()
        .expect("cannot start child process");

    assert!(
        output.status.success(),
        "scenario `{}`: the library did not return normally, child process ended with {:?}\n{}",
        name,
        output.status,
        String::from_utf8_lossy(&output.stderr)
    );
}

#[test]
fn selector_with_a_long_combinator_chain() {
    run_in_child_process("selector");
}

#[test]
fn large_inline_script() {
    run_in_child_process("script");
}
