#![no_main]
//! C04 (+C03 on valid UTF-8): the fuzzer's bytes drive the proptest strategies through the pass-through RNG,
//! so every structured case of the property-based check is reachable and coverage-guided.
use libfuzzer_sys::fuzz_target;
use rio_verif::fuzzsupport::{from_bytes, report};
use rio_verif::props::{c03, c04};

fuzz_target!(|data: &[u8]| {
    if data.len() < 8 {
        return;
    }
    if data[0] & 1 == 0 {
        if let Some(case) = from_bytes(&c04::strategy(), &data[1..]) {
            let out = c04::check(&case);
            if let Some(m) = out.failure {
                report("C04", "bytes", &case, &m);
            }
        }
    } else if let Some(case) = from_bytes(&c03::strategy(), &data[1..]) {
        let out = c03::check(&case);
        if let Some(m) = out.failure {
            report("C03", "bodies", &case, &m);
        }
    }
});
