//! C06 — actions and requests survive JSON serialisation unchanged (agent to proxy hand-off).
use crate::engine::*;
use crate::ffi;
use crate::gen::*;
use crate::mfold::PROBE_BODY;
use crate::props::c05;
use crate::spec::*;
use proptest::prelude::*;
use redirectionio::action::Action;
use redirectionio::http::{Header, Request};
use serde::{Deserialize, Serialize};
use serde_json::Value;
use std::ffi::CString;

#[derive(Serialize, Deserialize, Clone, Debug, PartialEq)]
pub enum Case {
    /// actions built by the library from a router and its requests
    Router(RouterCase),
    /// actions built from a rule list (C05 shapes)
    Fold(c05::Case),
}

/// Everything observable on an action for one response code, along the proxy call order and call by call.
pub fn observe(a: &Action, c: u16) -> Vec<String> {
    let mut obs = Vec::new();
    obs.push(format!("status={}", a.clone().get_status_code(c, None)));
    let input: Vec<Header> = c05::input_headers().into_iter().map(|(name, value)| Header { name, value }).collect();
    let h = a.clone().filter_headers(input, c, true, None);
    obs.push(format!("headers={:?}", h.iter().map(|h| format!("{}: {}", h.name, h.value)).collect::<Vec<_>>()));
    let mut a2 = a.clone();
    for headers in [vec![], vec![Header { name: "Content-Type".into(), value: "text/html; charset=utf-8".into() }], vec![Header { name: "Content-Type".into(), value: "application/json".into() }]] {
        match a2.create_filter_body(c, &headers) {
            None => obs.push("body=None".to_string()),
            Some(mut f) => {
                let mut o = f.filter(PROBE_BODY.as_bytes().to_vec(), None);
                o.extend(f.end(None));
                obs.push(format!("body={}", String::from_utf8_lossy(&o)));
            }
        }
    }
    for d in [true, false] {
        obs.push(format!("log({d})={}", a.clone().should_log_request(d, c, None)));
    }
    // pipeline
    let mut p = a.clone();
    let s0 = p.get_status_code(0, None);
    let b = if c == 0 { 200 } else { c };
    let (fin, backend) = if s0 != 0 { (s0, s0) } else { (p.get_status_code(b, None), b) };
    p.filter_headers(Vec::new(), backend, false, None);
    let _ = p.create_filter_body(backend, &[]);
    p.should_log_request(true, fin, None);
    obs.push(format!("applied={:?}", p.get_applied_rule_ids().iter().cloned().collect::<Vec<_>>()));
    obs
}

fn check_action(a: &Action, codes: &[u16], out: &mut Outcome) -> bool {
    let s = match serde_json::to_string(a) {
        Ok(s) => s,
        Err(e) => {
            out.fail(format!("action does not serialise: {e}"));
            return false;
        }
    };
    let a2: Action = match serde_json::from_str(&s) {
        Ok(a) => a,
        Err(e) => {
            out.fail(format!("serialised action does not deserialise: {e}; json = {s}"));
            return false;
        }
    };
    let s2 = serde_json::to_string(&a2).unwrap();
    if s2 != s {
        out.fail(format!("ser(de(ser(a))) != ser(a): {s2} vs {s}"));
        return false;
    }
    for &c in codes {
        out.evals += 1;
        let (o1, o2) = (observe(a, c), observe(&a2, c));
        if o1 != o2 {
            out.fail(format!("code {c}: restored action behaves differently: {:?} vs {:?}; json = {s}", o2, o1));
            return false;
        }
    }
    // the C entry points are thin wrappers over serde_json
    unsafe {
        let boxed = Box::into_raw(Box::new(a.clone()));
        let cs = ffi::take_string(ffi::redirectionio_action_json_serialize(boxed));
        drop(Box::from_raw(boxed));
        if cs.as_deref() != Some(s.as_str()) {
            out.fail(format!("redirectionio_action_json_serialize returned {:?}, serde gives {s}", cs));
            return false;
        }
        let cin = CString::new(s.clone()).unwrap();
        let p = ffi::redirectionio_action_json_deserialize(cin.as_ptr() as *mut _);
        if p.is_null() {
            out.fail(format!("redirectionio_action_json_deserialize rejected {s}"));
            return false;
        }
        let back = serde_json::to_string(&*p).unwrap();
        ffi::redirectionio_action_drop(p as *mut Action);
        if back != s {
            out.fail(format!("action restored through the C entry point serialises to {back} instead of {s}"));
            return false;
        }
    }
    let v: Value = serde_json::from_str(&s).unwrap();
    let hf = v["header_filters"].as_array().map(|a| a.len()).unwrap_or(0);
    let bf = v["body_filters"].as_array().map(|a| a.len()).unwrap_or(0);
    if hf >= 1 && bf >= 1 && !v["status_code_update"].is_null() {
        out.nontrivial = true;
    }
    if v["status_code_update"]["fallback_rule_id"].is_string() {
        out.class("status-with-fallback");
    }
    if !v["log_override"].is_null() {
        out.class("log-override");
    }
    if bf >= 1 {
        out.class("body-filter");
    }
    true
}

fn check_request(req: &Request, router: &redirectionio::router::Router<redirectionio::api::Rule>, out: &mut Outcome) -> bool {
    out.evals += 1;
    let s = serde_json::to_string(req).unwrap();
    let r2: Request = match serde_json::from_str(&s) {
        Ok(r) => r,
        Err(e) => {
            out.fail(format!("serialised request does not deserialise: {e}; json = {s}"));
            return false;
        }
    };
    let s2 = serde_json::to_string(&r2).unwrap();
    if s2 != s {
        out.fail(format!("request: ser(de(ser(q))) != ser(q): {s2} vs {s}"));
        return false;
    }
    let (m1, m2) = (ids_sorted(&router.match_request(req)), ids_sorted(&router.match_request(&r2)));
    if m1 != m2 {
        out.fail(format!("restored request matches {:?} instead of {:?}; json = {s}", m2, m1));
        return false;
    }
    // restored then re-normalised (what an agent does with a request received from a proxy)
    let m3 = ids_sorted(&router.match_request(&router.rebuild_request(&r2)));
    if m1 != m3 {
        out.fail(format!("restored + rebuilt request matches {:?} instead of {:?}; json = {s}", m3, m1));
        return false;
    }
    unsafe {
        let boxed = Box::into_raw(Box::new(req.clone()));
        let cs = ffi::take_string(ffi::redirectionio_request_json_serialize(boxed));
        drop(Box::from_raw(boxed));
        if cs.as_deref() != Some(s.as_str()) {
            out.fail(format!("redirectionio_request_json_serialize returned {:?}, serde gives {s}", cs));
            return false;
        }
        let cin = CString::new(s.clone()).unwrap();
        let p = ffi::redirectionio_request_json_deserialize(cin.as_ptr() as *mut _);
        if p.is_null() {
            out.fail(format!("redirectionio_request_json_deserialize rejected {s}"));
            return false;
        }
        let back = serde_json::to_string(&*p).unwrap();
        ffi::redirectionio_request_drop(p as *mut Request);
        if back != s {
            out.fail(format!("request restored through the C entry point serialises to {back} instead of {s}"));
            return false;
        }
    }
    if !req.headers.is_empty() && req.remote_addr.is_some() {
        out.class("request-with-headers-and-address");
    }
    if req.path_and_query_skipped.skipped_query_params.is_some() {
        out.class("request-with-skipped-marketing-params");
    }
    true
}

pub fn check(case: &Case) -> Outcome {
    let mut out = Outcome::new();
    out.evals = 0;
    match case {
        Case::Fold(c) => {
            let req = RequestSpec { uri: "/foo".into(), sampling_override: c.sampling_override, ..Default::default() }.build(&ConfigSpec::default().to_lib());
            let routes = c05::shuffled(&c05::routes_of(&c.rules), &c.order);
            let a = Action::from_routes_rule(routes, &req, None);
            check_action(&a, &c05::probe_codes(&c.rules), &mut out);
        }
        Case::Router(rc) => {
            let router = build_router(&rc.config, &rc.rules);
            let codes = c05::probe_codes(&rc.rules);
            for q in &rc.requests {
                let req = q.build(&router.config);
                if !check_request(&req, &router, &mut out) {
                    return out;
                }
                let a = Action::from_routes_rule(router.match_request(&req), &req, None);
                if !check_action(&a, &codes, &mut out) {
                    return out;
                }
            }
        }
    }
    if out.evals == 0 {
        out.evals = 1;
    }
    out
}

fn marketing_uri(q: &mut RequestSpec, k: u16) {
    // some requests carry marketing parameters, a fragment of the C09 alphabet, nanosecond instants, v6 addresses
    match k % 6 {
        0 => q.uri = format!("{}{}utm_source=x&ref=1", q.uri, if q.uri.contains('?') { '&' } else { '?' }),
        1 => q.uri = format!("{}{}gclid=%C3%A9+z", q.uri, if q.uri.contains('?') { '&' } else { '?' }),
        2 => q.sampling_override = Some(k % 4 == 2),
        3 => q.headers.push(("X-Ünicode".into(), "é\"\\\n".into())),
        _ => {}
    }
}

fn strategy() -> BoxedStrategy<Case> {
    prop_oneof![
        2 => (router_case_strategy(RuleOpts::FULL, 8, 3, 5), any::<u16>()).prop_map(|(mut rc, k)| {
            for (i, q) in rc.requests.iter_mut().enumerate() {
                marketing_uri(q, k.wrapping_add(i as u16));
            }
            // in a third of the cases one rule gets a header filter whose value only exists after substitution: a variable
            // that instantiates to the empty string leaves white space at the edges, which no literal rule value can carry
            // through a (hypothetical) normalisation at rule load
            if k % 3 == 0 && !rc.rules.is_empty() {
                let i = (k as usize / 3) % rc.rules.len();
                let r = &mut rc.rules[i];
                r.variables.push(serde_json::json!({"name": "hv", "type": {"request_header": {"name": "X-Not-Sent", "default": ""}}}));
                let mut hf = r.header_filters.take().unwrap_or_default();
                hf.push(crate::spec::HeaderFilterSpec { action: "add".into(), header: "X-Var".into(), value: "@hv tail\t@hv".into(), id: Some(format!("hfv-{}", r.id)), target_hash: None });
                r.header_filters = Some(hf);
            }
            Case::Router(rc)
        }),
        1 => c05::case_strategy(6).prop_map(Case::Fold),
    ]
    .boxed()
}

pub fn run(ctx: &Ctx) -> Report {
    let mut rep = Report::new(
        "C06",
        "case = actions produced by the library from generated routers+requests (C01 pools, full action shapes) and from C05 rule lists; requests with headers, v4/v6 addresses, nanosecond instants, skipped marketing parameters, sampling override; in a third of the router cases a header filter whose value gets white space at its edges by substitution of an empty variable; \
         oracle = ser(de(ser(a))) == ser(a), observations (status, filtered headers incl. rule ids, body-filter output under 3 content types, log decision for both defaults, applied ids along the proxy order) of de(ser(a)) == those of a for every probe code, \
         match(router, de(ser(q))) == match(router, q) (also after re-normalising), ser(de(ser(q))) == ser(q), and the four redirectionio_*_json_(de)serialize entry points return exactly serde's strings; \
         non-trivial = an action with >=1 header filter, >=1 body filter and a status update; distinct by case hash",
    );
    rep.assume("actions are those the library itself builds (the statement quantifies over actions the library can build)");
    rep.add(run_part(ctx, "roundtrip", ctx.cases(100_000, 3_000_000), strategy, check, &[]));
    rep
}

pub fn replay(_part: &str, case: &Value) -> Result<Outcome, String> {
    replay_case::<Case, _>(case, check)
}
