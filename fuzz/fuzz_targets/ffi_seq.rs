#![no_main]
//! C18 under AddressSanitizer: the FFI interpreter run in-process (use-after-free, double free, overflow are reported by
//! the sanitizer; value-contract violations by the interpreter). The operation stream is decoded byte by byte.
use libfuzzer_sys::fuzz_target;
use rio_verif::fuzzsupport::{report, Bytes};
use rio_verif::props::c18::{self, BufKind, FOp};

const ACTION: &str = r#"{"status_code_update":{"status_code":301,"on_response_status_codes":[404],"exclude_response_status_codes":false,"fallback_status_code":302,"rule_id":"r","fallback_rule_id":"q","unit_id":null,"target_hash":null},"header_filters":[{"filter":{"action":"override","header":"Location","value":"/t","id":null,"target_hash":null},"on_response_status_codes":[],"exclude_response_status_codes":false,"rule_id":"r"}],"body_filters":[{"filter":{"action":"append_child","value":"<i>x</i>","inner_value":null,"element_tree":["html","body"],"css_selector":null,"id":null,"target_hash":null},"on_response_status_codes":[],"exclude_response_status_codes":false,"rule_id":"r"},{"filter":{"action":"append_text","content":"<!--t-->","id":null,"target_hash":null},"on_response_status_codes":[],"exclude_response_status_codes":false,"rule_id":"q"}],"rule_ids":["r","q"],"rule_traces":[],"rules_applied":[],"log_override":null}"#;

fn opt(b: &mut Bytes, pool: &[&str]) -> Option<String> {
    let k = b.u8() as usize;
    if k % (pool.len() + 1) == pool.len() { None } else { Some(pool[k % (pool.len() + 1)].to_string()) }
}

fn headers(b: &mut Bytes) -> Option<Vec<(String, String)>> {
    let n = b.u8() % 5;
    if n == 4 {
        return None;
    }
    Some((0..n).map(|_| (b.pick(&["Content-Type", "content-encoding", "X-Shared", "Location", "X-Forwarded-For"]).to_string(), b.pick(&["text/html", "gzip", "br", "v", "", "1.2.3.4, 10.0.0.1", "é"]).to_string())).collect())
}

fn buf(b: &mut Bytes) -> BufKind {
    match b.u8() % 4 {
        0 => BufKind::Empty,
        1 => BufKind::Html(*b.pick(&[1u32, 2, 97, 500, 4096, 65536])),
        _ => BufKind::Bytes(*b.pick(&[1u32, 3, 100, 5000]), b.u8()),
    }
}

fuzz_target!(init: { rio_verif::engine::install_panic_hook(); rio_verif::ffi::install_log_callback(); }, |data: &[u8]| {
    let mut b = Bytes::new(data);
    let mut ops = Vec::new();
    while !b.done() && ops.len() < 40 {
        let slot = b.u8() % 2;
        let code = *b.pick(&[0u16, 200, 301, 404, 500]);
        ops.push(match b.u8() % 21 {
            0 => FOp::ReqCreate { slot, uri: opt(&mut b, &["/foo", "/foo?a=1&utm_source=x", "/é", ""]), host: opt(&mut b, &["example.com"]), scheme: opt(&mut b, &["https"]), method: opt(&mut b, &["GET", "POST"]), headers: headers(&mut b) },
            1 => FOp::ReqFromStr { slot, url: opt(&mut b, &["http://example.com/x?y=1", "/rel", "http://a b/", ""]) },
            2 => FOp::ReqFromJson { slot, json: opt(&mut b, &["{", r#"{"path_and_query":{"path_and_query":"/a","path_and_query_matching":"/a","skipped_query_params":null,"original":"/a"},"path_and_query_v2":"/a","host":null,"scheme":null,"method":null,"headers":[{"name":"X","value":"y"}],"remote_addr":"::1","created_at":null,"sampling_override":null}"#]) },
            3 => FOp::ReqSetAddr { slot, addr: opt(&mut b, &["10.1.2.3", "[::1]:80", "garbage"]), trusted: b.u8() % 2 == 0 },
            4 => FOp::ReqSerialize { slot },
            5 => FOp::ReqDrop { slot },
            6 | 7 => FOp::ActFromJson { slot, json: opt(&mut b, &[ACTION, ACTION, "[]"]) },
            8 => FOp::ActSerialize { slot },
            9 => FOp::ActStatus { slot, code },
            10 => FOp::ActFilterHeaders { slot, headers: headers(&mut b), code, add_ids: b.u8() % 2 == 0 },
            11 => FOp::ActShouldLog { slot, allow: b.u8() % 2 == 0, code },
            12 => FOp::ActDrop { slot },
            13 | 14 => FOp::BfCreate { slot, act: b.u8() % 2, code, headers: headers(&mut b) },
            15 | 16 => FOp::BfFilter { slot, buf: buf(&mut b) },
            17 => FOp::BfClose { slot },
            18 => FOp::BfDrop { slot },
            19 => FOp::BufDrop { buf: buf(&mut b) },
            _ => FOp::Log { req: slot, act: b.u8() % 2, code, headers: headers(&mut b), proxy: opt(&mut b, &["nginx"]), ip: opt(&mut b, &["1.2.3.4", "garbage"]) },
        });
    }
    let case = c18::Case { ops };
    if let Err(m) = c18::run_sequence(&case) {
        report("C18", "sequences", &case, &m);
    }
});
