// Inputs for which the UNCHANGED library violates C04 ("Body filters never lose, duplicate or
// reorder response bytes"). Every test below FAILS on the unchanged tree (the last one is ignored
// by default because it aborts the test process, see its comment).
//
// Common cause of the first three: when a stage fails on a chunk which is not the first one (or at
// the end of the body), FilterBodyAction gives back "what was held back + the chunk as it came",
// but only the HTML stages can give back what they hold. The bytes already swallowed by the
// decoding stage, and the fact that what was emitted so far went through the ENCODING stage (a new
// compressed stream, left unfinished), are not taken into account.
//
// flate2 is a (default) dependency of the crate, it is only used here to build the gzip input of
// the first test and to check whether a client could still decode the output.

use flate2::Compression;
use flate2::read::MultiGzDecoder;
use flate2::write::GzEncoder;
use redirectionio::api::{BodyFilter, HTMLBodyFilter};
use redirectionio::filter::FilterBodyAction;
use redirectionio::http::Header;
use std::io::{Read, Write};

const VALUE: &str = "<p>@@SENTINEL@@</p>";

fn append_to_body() -> Vec<BodyFilter> {
    vec![BodyFilter::HTML(HTMLBodyFilter {
        action: "append_child".to_string(),
        value: VALUE.to_string(),
        inner_value: None,
        element_tree: vec!["html".to_string(), "body".to_string()],
        css_selector: None,
        id: None,
        target_hash: None,
    })]
}

fn content_encoding(encoding: &str) -> Vec<Header> {
    vec![Header {
        name: "Content-Encoding".to_string(),
        value: encoding.to_string(),
    }]
}

fn run(filters: Vec<BodyFilter>, headers: &[Header], chunks: &[&[u8]]) -> Vec<u8> {
    let mut filter = FilterBodyAction::new(filters, headers);
    let mut out = Vec::new();

    for chunk in chunks {
        out.extend(filter.filter(chunk.to_vec(), None));
    }

    out.extend(filter.end(None));

    out
}

fn gzip(data: &[u8]) -> Vec<u8> {
    let mut encoder = GzEncoder::new(Vec::new(), Compression::default());
    encoder.write_all(data).unwrap();
    encoder.finish().unwrap()
}

fn gunzip(data: &[u8]) -> Result<Vec<u8>, String> {
    let mut out = Vec::new();
    MultiGzDecoder::new(data).read_to_end(&mut out).map_err(|e| e.to_string())?;

    Ok(out)
}

// A 13 kB page which ends with a latin-1 word (0xe9 followed by '<' is not valid UTF-8)
fn latin1_page() -> Vec<u8> {
    let mut page = b"<html><head><title>t</title></head><body>".to_vec();
    let mut x: u32 = 12345;

    for i in 0..400 {
        x = x.wrapping_mul(1664525).wrapping_add(1013904223);
        page.extend_from_slice(format!("<p id=\"p{}\">{:08x} {:x}</p>\n", i, x, x >> 7).as_bytes());
    }

    page.extend_from_slice(b"<p>caf\xe9</p></body></html>");

    page
}

// SIDE 1 - a perfectly valid gzip body (of a page which is not UTF-8) received in two chunks.
//
// Chunk 1 is decoded, filtered and re-encoded: the start of a NEW gzip stream is emitted. The HTML
// stage fails on chunk 2 (invalid UTF-8): chunk 2 is given back as it came, i.e. the second half
// of the ORIGINAL gzip stream. The two halves do not fit together: the client gets a body it cannot
// decode at all ("corrupt deflate stream"), the whole page is lost. Expected: a body which is the
// input byte-for-byte, or at least one that decodes to the same page. (With the whole body in one
// chunk the fallback works: the output is the input.)
#[test]
fn side1_valid_gzip_of_a_non_utf8_page_in_two_chunks() {
    let page = latin1_page();
    let body = gzip(&page);
    let (first, second) = body.split_at(body.len() / 2);

    // one chunk: fine
    let out = run(append_to_body(), &content_encoding("gzip"), &[&body]);
    assert!(out == body);

    let out = run(append_to_body(), &content_encoding("gzip"), &[first, second]);

    assert!(
        out == body || gunzip(&out) == Ok(page),
        "the output is neither the input nor a gzip stream of the same page: gunzip -> {:?}",
        gunzip(&out).map(|decoded| decoded.len())
    );
}

// SIDE 2 - the body is not gzip at all (wrong Content-Encoding header, an error page of an
// upstream...) and is shorter than a gzip header: the decoder waits for more bytes, fails at the
// end of the body, and the 3 bytes it swallowed are never given back. Expected "abc", got "".
#[test]
fn side2_short_body_which_is_not_gzip() {
    let out = run(append_to_body(), &content_encoding("gzip"), &[b"abc"]);

    assert_eq!(String::from_utf8_lossy(&out), "abc");
}

// SIDE 3 - same thing in the middle of the stream: a body announced as deflate which is plain text,
// first chunk of one byte. The zlib decoder fails on the second chunk only; the first chunk is lost.
// Expected "<html><body>hello</body></html>", got "html><body>hello</body></html>".
#[test]
fn side3_plain_body_announced_as_deflate_first_chunk_of_one_byte() {
    let chunks: [&[u8]; 2] = [b"<", b"html><body>hello</body></html>"];
    let out = run(append_to_body(), &content_encoding("deflate"), &chunks);

    assert_eq!(String::from_utf8_lossy(&out), String::from_utf8_lossy(&chunks.concat()));
}

// SIDE 4 (debug builds only) - the tokenizer reads the content of a <script> with one recursive
// call per byte (Tokenizer::read_script_data and friends). Without optimisation (the profile used
// by `cargo test`) a chunk holding 400 kB of inline script overflows an 8 MB stack: the process is
// killed (SIGABRT), nothing can be caught. With --release the calls are turned into jumps and the
// test passes. Run it alone: cargo test --test zz_demo -- --ignored side4
#[test]
#[ignore]
fn side4_large_inline_script_in_one_chunk_overflows_the_stack() {
    let handle = std::thread::Builder::new()
        .stack_size(8 * 1024 * 1024)
        .spawn(|| {
            let mut body = b"<html><head><script>".to_vec();
            body.extend(std::iter::repeat(b'a').take(400_000));
            body.extend_from_slice(b"</script></head><body></body></html>");

            let out = run(append_to_body(), &[], &[&body]);
            let out = String::from_utf8(out).unwrap().replace(VALUE, "");

            assert!(out.as_bytes() == body.as_slice());
        })
        .unwrap();

    handle.join().unwrap();
}
