#!/usr/bin/env bash
# usage: tools/verify_seeded.sh <candidate-dir (patch.diff, demo.rs)>
# Confirms in a scratch worktree (outside /repo and /verif) that: the demo passes without the change,
# the existing suite passes with the change, and the demo fails with the change. Prints a verdict line.
set -u
src="$(realpath "$1")"
wt=/tmp/verify-wt
export PUBLISH_SKIP_BUILD=1 CARGO_NET_OFFLINE=true
if [ ! -d "$wt" ]; then git -C /repo worktree add --detach "$wt" HEAD -q || exit 2; fi
git -C "$wt" checkout -q --detach "$(git -C /repo rev-parse HEAD)" 2>/dev/null
git -C "$wt" checkout -- . ; rm -f "$wt/tests/zz_demo.rs"
cp "$src/demo.rs" "$wt/tests/zz_demo.rs"
base=$(cd "$wt" && cargo test --offline --test zz_demo 2>&1 | grep -E "^test result" | tail -1)
if ! git -C "$wt" apply "$src/patch.diff"; then echo "VERDICT patch-does-not-apply"; exit 1; fi
all=$(cd "$wt" && cargo test --offline --workspace --no-fail-fast 2>&1 | grep -E "^test result|^error")
git -C "$wt" checkout -- . ; rm -f "$wt/tests/zz_demo.rs"
echo "demo without change: $base"
echo "suite with change:"; echo "$all"
suite_ok=$(echo "$all" | grep -cE "^test result: ok. (106|432|11) passed")
demo_fail=$(echo "$all" | grep -cE "^test result: FAILED")
base_ok=$(echo "$base" | grep -c "test result: ok")
if [ "$base_ok" = 1 ] && [ "$suite_ok" = 3 ] && [ "$demo_fail" = 1 ]; then echo "VERDICT confirmed"; else echo "VERDICT NOT-confirmed (base_ok=$base_ok suite_ok=$suite_ok demo_fail=$demo_fail)"; fi
