//! C12 — regex caching is transparent: warming the cache never changes answers.
use crate::engine::*;
use crate::hist::*;
use crate::props::c08::{self, haystack_pool, pattern_of, CURATED};
use crate::spec::*;
use redirectionio::api::Rule;
use redirectionio::regex_radix_tree::{RegexTreeMap, VerifNode};
use redirectionio::router::Router;
use serde::{Deserialize, Serialize};
use serde_json::Value;
use std::collections::BTreeMap;

// ---------------------------------------------------------------------------------------------
// router level: twins

/// Replace serialised routes by their ids and sort children, so that two traces can be compared
/// independently of hash-map iteration order.
pub fn normalise_trace(v: &Value) -> Value {
    match v {
        Value::Array(a) => {
            let mut items: Vec<Value> = a.iter().map(normalise_trace).collect();
            items.sort_by_key(|x| x.to_string());
            Value::Array(items)
        }
        Value::Object(o) => {
            let mut m = serde_json::Map::new();
            for (k, val) in o {
                if k == "routes" {
                    let mut ids: Vec<String> = val.as_array().map(|a| a.iter().map(|r| r["id"].as_str().unwrap_or("?").to_string()).collect()).unwrap_or_default();
                    ids.sort();
                    m.insert(k.clone(), Value::from(ids));
                } else {
                    m.insert(k.clone(), normalise_trace(val));
                }
            }
            Value::Object(m)
        }
        other => other.clone(),
    }
}

fn observe(router: &Router<Rule>, req: &redirectionio::http::Request, with_trace: bool) -> (Vec<String>, BTreeMap<String, BTreeMap<String, String>>, Value) {
    let matched = router.match_request(req);
    let ids = ids_sorted(&matched);
    let mut caps = BTreeMap::new();
    for r in &matched {
        caps.insert(r.id().to_string(), r.capture(req).into_iter().collect::<BTreeMap<_, _>>());
    }
    let trace = if with_trace { normalise_trace(&serde_json::to_value(router.trace_request(req)).unwrap_or(Value::Null)) } else { Value::Null };
    (ids, caps, trace)
}

pub fn check_twins(case: &HistCase) -> Outcome {
    let mut out = Outcome::new();
    out.evals = 0;
    let mut plain = Machine::new(&case.config);
    let mut cached = Machine::new(&case.config);
    let cfg = case.config.to_lib();
    let probes: Vec<_> = case.probes.iter().map(|q| q.build(&cfg)).collect();
    let mut warmed_with_dynamic = false;
    let mut updated_after_warm = false;
    for (step, op) in case.ops.iter().enumerate() {
        let i1 = plain.apply(case, op, false);
        let i2 = cached.apply(case, op, true);
        if let Some(e) = i1.error.or(i2.error) {
            out.fail(format!("step {step} ({op:?}): {e}"));
            return out;
        }
        let is_cache = matches!(op, HOp::Cache { .. });
        if is_cache {
            let dynamic_live = cached.model.iter().filter(|(s, v)| case.rule(**s, **v).source.path.contains('@') || case.rule(**s, **v).source.host.as_deref().map(|h| h.contains('@')).unwrap_or(false)).count();
            if dynamic_live >= 2 && !matches!(op, HOp::Cache { n: Some(0) }) {
                warmed_with_dynamic = true;
                out.class("warm-up-with>=2-dynamic-rules");
            }
        } else if warmed_with_dynamic && !i2.skipped {
            updated_after_warm = true;
        }
        let last = step + 1 == case.ops.len();
        let np = probes.len();
        for (k, p) in probes.iter().enumerate() {
            if !(last || is_cache || (0..10).any(|j| (step * 10 + j) % np == k)) {
                continue;
            }
            out.evals += 1;
            let with_trace = last || is_cache;
            let a = observe(&plain.router, p, with_trace);
            let b = observe(&cached.router, p, with_trace);
            if a.0 != b.0 {
                out.fail(format!("step {step} ({op:?}): probe {:?}: uncached router matches {:?}, warmed router matches {:?}", case.probes[k], a.0, b.0));
                return out;
            }
            if a.1 != b.1 {
                out.fail(format!("step {step} ({op:?}): probe {:?}: captures differ: uncached {:?}, warmed {:?}", case.probes[k], a.1, b.1));
                return out;
            }
            if a.2 != b.2 {
                out.fail(format!("step {step} ({op:?}): probe {:?}: normalised traces differ: uncached {}, warmed {}", case.probes[k], a.2, b.2));
                return out;
            }
        }
    }
    if out.evals == 0 {
        out.evals = 1;
    }
    if updated_after_warm {
        out.class("update-after-warm-up");
    }
    out.nontrivial = warmed_with_dynamic && updated_after_warm;
    out
}

// ---------------------------------------------------------------------------------------------
// tree level: exhaustive over (limit, level)
#[derive(Serialize, Deserialize, Clone, Debug, PartialEq)]
pub struct TreeCase {
    pub templates: Vec<String>,
    pub ignore_case: bool,
    /// successive cache(limit, level) calls
    pub calls: Vec<(u64, Option<u64>)>,
}

fn count_nodes(n: &VerifNode) -> (usize, usize) {
    // (regex-carrying nodes, compiled ones)
    let mut total = if n.kind == "empty" { 0 } else { 1 };
    let mut comp = if n.compiled { 1 } else { 0 };
    for c in &n.children {
        let (t, k) = count_nodes(c);
        total += t;
        comp += k;
    }
    (total, comp)
}

fn depth(n: &VerifNode) -> usize {
    1 + n.children.iter().map(depth).max().unwrap_or(0)
}

pub fn build_tree(templates: &[String], ci: bool) -> RegexTreeMap<String> {
    let mut t = RegexTreeMap::new(ci);
    for (i, tpl) in templates.iter().enumerate() {
        t.insert(&pattern_of(tpl), &format!("i{i}"), format!("v{i}"));
    }
    t
}

pub fn check_tree(case: &TreeCase) -> Outcome {
    let mut out = Outcome::new();
    out.evals = 0;
    let tpl: Vec<&str> = case.templates.iter().map(|s| s.as_str()).collect();
    let hay = haystack_pool(&tpl);
    let mut tree = build_tree(&case.templates, case.ignore_case);
    let find = |t: &RegexTreeMap<String>, s: &str| {
        let mut v: Vec<String> = t.find(s).into_iter().cloned().collect();
        v.sort();
        v
    };
    let before: Vec<Vec<String>> = hay.iter().map(|s| find(&tree, s)).collect();
    let mut mixed = false;
    for (limit, level) in &case.calls {
        let (total, c0) = count_nodes(&tree.verif_snapshot());
        let left = tree.cache(*limit, *level);
        let (_, c1) = count_nodes(&tree.verif_snapshot());
        // budget bookkeeping is not part of the statement (transparency is): recorded, never raised
        if c1 < c0 {
            out.class("note:compiled-count-decreased");
        }
        if left > *limit {
            out.class("note:remaining-budget-above-limit");
        }
        if c1 > 0 && c1 < total {
            mixed = true;
        }
        for (s, b) in hay.iter().zip(&before) {
            out.evals += 1;
            let after = find(&tree, s);
            if after != *b {
                out.fail(format!("after cache({limit},{level:?}) find({s:?}) = {:?}, it was {:?} on the uncached tree", after, b));
                return out;
            }
        }
        if tree.len() != case.templates.len() {
            out.fail(format!("after cache({limit},{level:?}) len() = {} instead of {}", tree.len(), case.templates.len()));
            return out;
        }
    }
    if mixed {
        out.class("mixed-tree");
    }
    out.nontrivial = mixed;
    out.distinct_by_construction = true;
    out
}

pub fn tree_cases(max_size: usize, seq: bool) -> Vec<TreeCase> {
    let mut cases = Vec::new();
    for exh in c08::exhaustive_cases(max_size, false) {
        // one case per (subset, order, flag): take those without removal, recognisable by their op count
        let k = exh.templates.len();
        let inserts: Vec<usize> = exh.ops.iter().filter_map(|o| if let c08::Op::Insert { t, v, .. } = o { if *v < 100 { Some(*t) } else { None } } else { None }).collect();
        if exh.ops.iter().any(|o| matches!(o, c08::Op::Remove { .. })) || inserts.len() != k {
            continue;
        }
        let templates: Vec<String> = inserts.iter().map(|&t| exh.templates[t].clone()).collect();
        // only two insertion orders per subset: the identity and the reverse
        let idx: Vec<usize> = inserts.clone();
        let is_sorted = idx.windows(2).all(|w| w[0] < w[1]);
        let is_rev = idx.windows(2).all(|w| w[0] > w[1]);
        if !(is_sorted || is_rev) {
            continue;
        }
        let t = build_tree(&templates, exh.ignore_case);
        let snap = t.verif_snapshot();
        let (n, _) = count_nodes(&snap);
        let d = depth(&snap);
        let mut levels: Vec<Option<u64>> = vec![None];
        levels.extend((0..=(d as u64 + 1)).map(Some));
        for limit in 0..=(n as u64 + 1) {
            for level in &levels {
                cases.push(TreeCase { templates: templates.clone(), ignore_case: exh.ignore_case, calls: vec![(limit, *level)] });
                if seq && limit > 0 && limit <= 2 {
                    // sequences of successive calls: same call twice, then an unlimited one
                    cases.push(TreeCase { templates: templates.clone(), ignore_case: exh.ignore_case, calls: vec![(limit, *level), (limit, level.map(|l| l + 1)), (1000, None)] });
                }
            }
        }
    }
    cases
}

/// Trees over arbitrary expressions (prefixes that are not expressions on their own, alternations, quantifiers at the cut).
pub fn raw_tree_cases() -> Vec<TreeCase> {
    let mut cases = Vec::new();
    let n = c08::RAW.len();
    let mut subsets: Vec<Vec<usize>> = Vec::new();
    for a in 0..n {
        for b in (a + 1)..n {
            subsets.push(vec![a, b]);
            for c in (b + 1)..n {
                subsets.push(vec![a, b, c]);
            }
        }
    }
    for sub in subsets {
        for rev in [false, true] {
            for ci in [false, true] {
                let mut templates: Vec<String> = sub.iter().map(|&i| c08::RAW[i].to_string()).collect();
                if rev {
                    templates.reverse();
                }
                let t = build_tree(&templates, ci);
                let snap = t.verif_snapshot();
                let (n, _) = count_nodes(&snap);
                let d = depth(&snap);
                let mut levels: Vec<Option<u64>> = vec![None];
                levels.extend((0..=(d as u64 + 1)).map(Some));
                for limit in 0..=(n as u64 + 1) {
                    for level in &levels {
                        cases.push(TreeCase { templates: templates.clone(), ignore_case: ci, calls: vec![(limit, *level)] });
                        if limit == 1 {
                            cases.push(TreeCase { templates: templates.clone(), ignore_case: ci, calls: vec![(limit, *level), (limit, *level), (1000, None)] });
                        }
                    }
                }
            }
        }
    }
    cases
}

pub fn run(ctx: &Ctx) -> Report {
    let mut rep = Report::new(
        "C12",
        "router level: the C02 history interpreter run on twins, one of which additionally executes the generated cache(n) calls (n in {None,0,1,2,3,5,10,1000}); oracle after steps on the probe set: multiset of matched ids, Route::capture maps of every matched route and the normalised serialised trace_request \
         are equal between the twins. tree level: for every tree of the C08 curated scope (two insertion orders, both case modes) exhaustively every limit in 0..=N+1 (N = number of regex nodes) x level in {None, 0..=depth+1}: find before == find after on all haystacks, plus sequences of three successive calls; the same enumeration over pairs and triples of arbitrary expressions outside the rule shape (prefixes that do not compile on their own, alternations, quantifiers at the cut), where only the twin oracle is claimed; \
         non-trivial = (tree) some but not all regex nodes compiled at a comparison point (hook), (router) a warm-up happened with >=2 live marker rules and the history updated the router afterwards; distinct by hash / by construction",
    );
    rep.assume("same domain exclusion O1 as C08; the trace is compared after sorting children and replacing routes by ids because its order follows hash-map iteration");
    let cases = tree_cases(ctx.tier.pick(3, 4) as usize, true);
    let n = cases.len() as u64;
    rep.add(run_enum(ctx, "tree-limit-level-exhaustive", n, true, &format!("{n} (tree, limit, level / call sequence) combinations over subsets of the {} curated patterns {:?}", CURATED.len(), CURATED), |i| Some(cases[i as usize].clone()), check_tree, &[]));
    if rep.has_violation() {
        return rep;
    }
    let raw = raw_tree_cases();
    let n = raw.len() as u64;
    rep.add(run_enum(ctx, "raw-expression-trees", n, true, &format!("{n} (tree, limit, level / call sequence) combinations over the pairs and triples of {} arbitrary expressions {:?} (two insertion orders, both case modes)", c08::RAW.len(), c08::RAW), |i| Some(raw[i as usize].clone()), check_tree, &[]));
    if rep.has_violation() {
        return rep;
    }
    rep.add(run_part(ctx, "router-twins", ctx.cases(1_500, 60_000), || hist_case_strategy(30), check_twins, &[]));
    rep
}

pub fn replay(part: &str, case: &Value) -> Result<Outcome, String> {
    if part.starts_with("tree") {
        replay_case::<TreeCase, _>(case, check_tree)
    } else {
        replay_case::<HistCase, _>(case, check_twins)
    }
}
