// Side finding for property C14 - FAILS ON THE UNCHANGED TREE.
//
//   "For a response declared gzip, deflate or br and any chunking of the compressed stream, the filter
//    output is a complete valid stream of the same encoding whose decompression equals the output of the
//    same filters applied to the decompressed body"   (forall bodies b ...)
//
// Input: an HTML page in ISO-8859-1 (`Café crème` as the bytes e9 / e8: not valid UTF-8), gzip-compressed,
// `Content-Type: text/html`, `Content-Encoding: gzip`, one HTML filter (append_child in html > body: it acts at </body>, after the
// invalid bytes, so that what the filter does to the decompressed body does not depend on its chunking).
//
// On the decompressed body the library is well behaved for EVERY chunking: the HTML stage reports the
// invalid sequence, FilterBodyAction::filter switches to `in_error`, gives back what the stages were
// holding plus the current chunk, and from then on passes every chunk through. The output is the body,
// byte for byte: filter_plain(b) == b (checked below for all two-chunk splits).
//
// On the compressed stream the same recovery code is wrong as soon as the error is not raised by the very
// first chunk that produces decoded output:
//   * the chunks before it were decoded, filtered and RE-ENCODED: the output already starts with a new
//     gzip header and sync-flushed deflate blocks of the encode stage;
//   * the recovery then appends `held_back()` of the HTML stage - DECODED text - and the current chunk
//     and all the following chunks RAW, i.e. bytes from the middle of the ORIGINAL deflate stream;
//   * compressed bytes swallowed by the decode stage in earlier chunks that had not produced output yet
//     (`held_back()` is empty for the decode stage) are lost: even a first chunk of 1 byte is enough,
//     the output is then the original stream without its first byte;
//   * end() returns nothing once in_error is set, the encoder is never finished.
// The response body sent to the client under `Content-Encoding: gzip` is not a gzip stream at all; a
// browser shows a decoding error instead of the page.
//
// Expected (property): out is a complete gzip stream and gunzip(out) == filter_plain(b) == b.
// Observed: for almost every split of the compressed stream in two chunks gunzip(out) fails.
// Only the one-chunk schedule (and splits where the first chunk alone already decodes up to the invalid
// byte, or decodes to nothing AND is empty) give a correct answer.

use redirectionio::api::BodyFilter;
use redirectionio::filter::FilterBodyAction;
use redirectionio::http::Header;

const LATIN1_HTML: &[u8] = b"<html><head><title>Carte</title></head><body class=\"page\"><h1>Carte</h1><ul><li>Soupe du jour</li><li>Salade verte</li><li>Tarte aux pommes</li><li>Caf\xe9 cr\xe8me</li></ul></body></html>";

// gzip -6 of LATIN1_HTML
const LATIN1_GZIP: [u8; 142] = [
    0x1f, 0x8b, 0x08, 0x00, 0x00, 0x00, 0x00, 0x00, 0x00, 0x03, 0x3d, 0x8e, 0xcb, 0x0d, 0xc2, 0x30, 0x0c, 0x86, 0x57, 0xb1, 0xba, 0x80,
    0xc5, 0xdd, 0xe4, 0xd2, 0x11, 0x60, 0x01, 0xd3, 0x18, 0x5a, 0xe4, 0x28, 0x51, 0x1e, 0x08, 0x36, 0x86, 0x2d, 0x88, 0xdb, 0xc2, 0xcd,
    0xfe, 0x5f, 0xfa, 0x68, 0xae, 0x41, 0x1d, 0xcd, 0xc2, 0xde, 0x51, 0x5d, 0xaa, 0x8a, 0x1b, 0x39, 0x57, 0x21, 0xdc, 0x1e, 0xc2, 0xcd,
    0xba, 0x44, 0xff, 0x82, 0x49, 0xb9, 0x94, 0xe3, 0x90, 0xf8, 0x26, 0x43, 0xef, 0x1c, 0x7e, 0xd1, 0x7e, 0x51, 0xeb, 0x2b, 0xba, 0xb8,
    0x53, 0x6c, 0x49, 0xc0, 0x37, 0xb8, 0xc7, 0x96, 0x09, 0xbb, 0xb2, 0xaa, 0xac, 0xec, 0x05, 0x1e, 0xb2, 0xc6, 0x77, 0xf1, 0x6c, 0x65,
    0xe0, 0xf6, 0x84, 0x14, 0x43, 0x90, 0xf2, 0x37, 0x46, 0xbe, 0x7e, 0x60, 0xca, 0xef, 0xb0, 0x67, 0xd1, 0xb6, 0xd1, 0x08, 0x0c, 0xc7,
    0x78, 0xbf, 0xf7, 0x2d, 0x22, 0xf3, 0xb6, 0x00, 0x00, 0x00,
];

fn headers(encoding: Option<&str>) -> Vec<Header> {
    let mut headers = vec![Header {
        name: "Content-Type".to_string(),
        value: "text/html".to_string(),
    }];

    if let Some(encoding) = encoding {
        headers.push(Header {
            name: "Content-Encoding".to_string(),
            value: encoding.to_string(),
        });
    }

    headers
}

fn filters() -> Vec<BodyFilter> {
    vec![serde_json::from_str(r#"{"action":"append_child","element_tree":["html","body"],"css_selector":"","value":"<p>Bye</p>"}"#).unwrap()]
}

fn run(headers: &[Header], chunks: &[&[u8]]) -> Vec<u8> {
    let mut action = FilterBodyAction::new(filters(), headers);
    let mut out = Vec::new();

    for chunk in chunks {
        out.extend(action.filter(chunk.to_vec(), None));
    }

    out.extend(action.end(None));

    out
}

#[test]
fn fixture_is_what_it_claims() {
    assert_eq!(codec::gunzip(&LATIN1_GZIP).as_deref(), Ok(LATIN1_HTML));
    assert!(std::str::from_utf8(LATIN1_HTML).is_err());
}

#[test]
fn plain_body_is_passed_through_for_every_chunking() {
    // filter_plain(b) is well defined and does not depend on the chunking: the body, untouched
    assert_eq!(run(&headers(None), &[LATIN1_HTML]), LATIN1_HTML);

    for cut in 0..=LATIN1_HTML.len() {
        assert_eq!(
            run(&headers(None), &[&LATIN1_HTML[..cut], &LATIN1_HTML[cut..]]),
            LATIN1_HTML,
            "plain body split at {cut}"
        );
    }
}

#[test]
fn compressed_body_in_one_chunk() {
    // passes: the error is raised by the first call, nothing had been emitted, the chunk is given back
    let out = run(&headers(Some("gzip")), &[&LATIN1_GZIP]);

    assert_eq!(codec::gunzip(&out).as_deref(), Ok(LATIN1_HTML));
}

#[test]
fn compressed_body_in_two_chunks() {
    // FAILS on the unchanged tree
    let expected = run(&headers(None), &[LATIN1_HTML]);
    let mut failures = Vec::new();

    for cut in 1..LATIN1_GZIP.len() {
        let out = run(&headers(Some("gzip")), &[&LATIN1_GZIP[..cut], &LATIN1_GZIP[cut..]]);

        match codec::gunzip(&out) {
            Ok(decoded) if decoded == expected => (),
            Ok(decoded) => failures.push(format!("split at {cut}: decodes to {:?}", String::from_utf8_lossy(&decoded))),
            Err(error) => failures.push(format!("split at {cut}: not a gzip stream ({error}), {} bytes out for {} in", out.len(), LATIN1_GZIP.len())),
        }
    }

    assert!(
        failures.is_empty(),
        "{} of {} two-chunk schedules give a body that is not gzip(filter_plain(b)):\n{}",
        failures.len(),
        LATIN1_GZIP.len() - 1,
        failures.join("\n")
    );
}

// ---------------------------------------------------------------------------------------------------
// A small independent decoder (RFC 1950 / 1951 / 1952), so that this file needs nothing but the crate
// under test: the output of the filter is checked to be ONE complete, valid stream of the declared
// encoding (header, deflate blocks, checksum, no byte left over) and its content is returned.
// ---------------------------------------------------------------------------------------------------
mod codec {
    struct Bits<'a> {
        data: &'a [u8],
        pos: usize,
        buf: u32,
        cnt: u32,
    }

    impl<'a> Bits<'a> {
        fn bits(&mut self, need: u32) -> Result<u32, String> {
            while self.cnt < need {
                let byte = *self.data.get(self.pos).ok_or("unexpected end of the deflate stream")?;
                self.pos += 1;
                self.buf |= (byte as u32) << self.cnt;
                self.cnt += 8;
            }

            let value = self.buf & ((1u32 << need) - 1);
            self.buf >>= need;
            self.cnt -= need;

            Ok(value)
        }
    }

    struct Huffman {
        count: [u16; 16],
        symbol: Vec<u16>,
    }

    fn construct(lengths: &[u8]) -> Huffman {
        let mut count = [0u16; 16];

        for &len in lengths {
            count[len as usize] += 1;
        }

        let mut offs = [0u16; 16];

        for len in 1..15 {
            offs[len + 1] = offs[len] + count[len];
        }

        let mut symbol = vec![0u16; lengths.len()];

        for (sym, &len) in lengths.iter().enumerate() {
            if len != 0 {
                symbol[offs[len as usize] as usize] = sym as u16;
                offs[len as usize] += 1;
            }
        }

        Huffman { count, symbol }
    }

    fn decode(bits: &mut Bits, huffman: &Huffman) -> Result<u16, String> {
        let (mut code, mut first, mut index) = (0i32, 0i32, 0i32);

        for len in 1..=15 {
            code |= bits.bits(1)? as i32;
            let count = huffman.count[len] as i32;

            if code - count < first {
                return Ok(huffman.symbol[(index + (code - first)) as usize]);
            }

            index += count;
            first += count;
            first <<= 1;
            code <<= 1;
        }

        Err("invalid huffman code".to_string())
    }

    const LBASE: [u16; 29] = [
        3, 4, 5, 6, 7, 8, 9, 10, 11, 13, 15, 17, 19, 23, 27, 31, 35, 43, 51, 59, 67, 83, 99, 115, 131, 163, 195, 227, 258,
    ];
    const LEXT: [u8; 29] = [0, 0, 0, 0, 0, 0, 0, 0, 1, 1, 1, 1, 2, 2, 2, 2, 3, 3, 3, 3, 4, 4, 4, 4, 5, 5, 5, 5, 0];
    const DBASE: [u16; 30] = [
        1, 2, 3, 4, 5, 7, 9, 13, 17, 25, 33, 49, 65, 97, 129, 193, 257, 385, 513, 769, 1025, 1537, 2049, 3073, 4097, 6145, 8193, 12289, 16385,
        24577,
    ];
    const DEXT: [u8; 30] = [
        0, 0, 0, 0, 1, 1, 2, 2, 3, 3, 4, 4, 5, 5, 6, 6, 7, 7, 8, 8, 9, 9, 10, 10, 11, 11, 12, 12, 13, 13,
    ];

    fn codes(bits: &mut Bits, out: &mut Vec<u8>, lencode: &Huffman, distcode: &Huffman) -> Result<(), String> {
        loop {
            let symbol = decode(bits, lencode)? as usize;

            if symbol < 256 {
                out.push(symbol as u8);
            } else if symbol == 256 {
                return Ok(());
            } else {
                let symbol = symbol - 257;

                if symbol >= 29 {
                    return Err("invalid length symbol".to_string());
                }

                let len = LBASE[symbol] as usize + bits.bits(LEXT[symbol] as u32)? as usize;
                let symbol = decode(bits, distcode)? as usize;

                if symbol >= 30 {
                    return Err("invalid distance symbol".to_string());
                }

                let dist = DBASE[symbol] as usize + bits.bits(DEXT[symbol] as u32)? as usize;

                if dist > out.len() {
                    return Err("distance too far back".to_string());
                }

                for _ in 0..len {
                    out.push(out[out.len() - dist]);
                }
            }
        }
    }

    /// Raw deflate stream -> (content, number of input bytes used)
    pub fn inflate(data: &[u8]) -> Result<(Vec<u8>, usize), String> {
        let mut bits = Bits {
            data,
            pos: 0,
            buf: 0,
            cnt: 0,
        };
        let mut out = Vec::new();

        loop {
            let last = bits.bits(1)?;

            match bits.bits(2)? {
                0 => {
                    bits.buf = 0;
                    bits.cnt = 0;

                    if bits.pos + 4 > data.len() {
                        return Err("unexpected end in a stored block".to_string());
                    }

                    let len = data[bits.pos] as usize | (data[bits.pos + 1] as usize) << 8;
                    let nlen = data[bits.pos + 2] as usize | (data[bits.pos + 3] as usize) << 8;

                    if len != !nlen & 0xffff {
                        return Err("stored block length mismatch".to_string());
                    }

                    bits.pos += 4;

                    if bits.pos + len > data.len() {
                        return Err("unexpected end in a stored block".to_string());
                    }

                    out.extend_from_slice(&data[bits.pos..bits.pos + len]);
                    bits.pos += len;
                }
                1 => {
                    let mut lengths = [0u8; 288];

                    for (symbol, len) in lengths.iter_mut().enumerate() {
                        *len = match symbol {
                            0..=143 => 8,
                            144..=255 => 9,
                            256..=279 => 7,
                            _ => 8,
                        };
                    }

                    codes(&mut bits, &mut out, &construct(&lengths), &construct(&[5u8; 30]))?;
                }
                2 => {
                    const ORDER: [usize; 19] = [16, 17, 18, 0, 8, 7, 9, 6, 10, 5, 11, 4, 12, 3, 13, 2, 14, 1, 15];
                    let nlen = bits.bits(5)? as usize + 257;
                    let ndist = bits.bits(5)? as usize + 1;
                    let ncode = bits.bits(4)? as usize + 4;

                    if nlen > 286 || ndist > 30 {
                        return Err("bad counts in a dynamic block".to_string());
                    }

                    let mut lengths = [0u8; 320];

                    for &position in ORDER.iter().take(ncode) {
                        lengths[position] = bits.bits(3)? as u8;
                    }

                    let lencode = construct(&lengths[..19]);
                    let mut lengths = [0u8; 320];
                    let mut index = 0;

                    while index < nlen + ndist {
                        let symbol = decode(&mut bits, &lencode)?;

                        if symbol < 16 {
                            lengths[index] = symbol as u8;
                            index += 1;
                        } else {
                            let (value, repeat) = match symbol {
                                16 => {
                                    if index == 0 {
                                        return Err("repeat without a previous length".to_string());
                                    }

                                    (lengths[index - 1], 3 + bits.bits(2)? as usize)
                                }
                                17 => (0, 3 + bits.bits(3)? as usize),
                                _ => (0, 11 + bits.bits(7)? as usize),
                            };

                            if index + repeat > nlen + ndist {
                                return Err("too many lengths".to_string());
                            }

                            for _ in 0..repeat {
                                lengths[index] = value;
                                index += 1;
                            }
                        }
                    }

                    codes(
                        &mut bits,
                        &mut out,
                        &construct(&lengths[..nlen]),
                        &construct(&lengths[nlen..nlen + ndist]),
                    )?;
                }
                _ => return Err("invalid block type".to_string()),
            }

            if last == 1 {
                // the bits left in the last byte are padding, whole bytes read ahead are given back
                return Ok((out, bits.pos - (bits.cnt / 8) as usize));
            }
        }
    }

    fn crc32(data: &[u8]) -> u32 {
        let mut crc = 0xffff_ffffu32;

        for &byte in data {
            crc ^= byte as u32;

            for _ in 0..8 {
                crc = if crc & 1 == 1 { (crc >> 1) ^ 0xedb8_8320 } else { crc >> 1 };
            }
        }

        !crc
    }

    fn adler32(data: &[u8]) -> u32 {
        let (mut a, mut b) = (1u32, 0u32);

        for &byte in data {
            a = (a + byte as u32) % 65521;
            b = (b + a) % 65521;
        }

        (b << 16) | a
    }

    /// One complete gzip member and nothing else
    pub fn gunzip(data: &[u8]) -> Result<Vec<u8>, String> {
        if data.len() < 18 || data[0] != 0x1f || data[1] != 0x8b || data[2] != 8 {
            return Err("not a gzip stream (bad magic)".to_string());
        }

        if data[3] != 0 {
            return Err("gzip header flags are not handled by this small decoder".to_string());
        }

        let (out, used) = inflate(&data[10..])?;
        let trailer = &data[10 + used..];

        if trailer.len() != 8 {
            return Err(format!("{} bytes after the deflate data, a gzip trailer has 8", trailer.len()));
        }

        let crc = u32::from_le_bytes([trailer[0], trailer[1], trailer[2], trailer[3]]);
        let size = u32::from_le_bytes([trailer[4], trailer[5], trailer[6], trailer[7]]);

        if crc != crc32(&out) || size != out.len() as u32 {
            return Err("gzip trailer does not match the content".to_string());
        }

        Ok(out)
    }

    /// One complete zlib stream ("deflate" content coding) and nothing else
    pub fn unzlib(data: &[u8]) -> Result<Vec<u8>, String> {
        if data.len() < 6 || data[0] & 0x0f != 8 || (((data[0] as u32) << 8) | data[1] as u32) % 31 != 0 || data[1] & 0x20 != 0 {
            return Err("not a zlib stream (bad header)".to_string());
        }

        let (out, used) = inflate(&data[2..])?;
        let trailer = &data[2 + used..];

        if trailer.len() != 4 {
            return Err(format!("{} bytes after the deflate data, a zlib trailer has 4", trailer.len()));
        }

        if u32::from_be_bytes([trailer[0], trailer[1], trailer[2], trailer[3]]) != adler32(&out) {
            return Err("zlib checksum does not match the content".to_string());
        }

        Ok(out)
    }
}
