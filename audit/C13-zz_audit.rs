// Audit of property C13: header filters implement add / remove / replace / override / default exactly.
//
// Run with:
//   PUBLISH_SKIP_BUILD=1 CARGO_NET_OFFLINE=true cargo test --offline -j2 --test zz_audit -- --nocapture

use redirectionio::RouterConfig;
use redirectionio::action::{Action, UnitTrace};
use redirectionio::api::{HeaderFilter, Rule};
use redirectionio::filter::FilterHeaderAction;
use redirectionio::http::{Header, PathAndQueryWithSkipped, Request};
use redirectionio::router::Router;

// ---------------------------------------------------------------------------------------------
// Reference model, written from the statement of the property
// ---------------------------------------------------------------------------------------------

type H = (String, String);
type F = (String, String, String); // action, header, value

fn same_name(a: &str, b: &str) -> bool {
    a.eq_ignore_ascii_case(b)
}

fn reference_op(headers: Vec<H>, f: &F) -> Vec<H> {
    let (action, name, value) = f;

    match action.as_str() {
        "add" => {
            let mut out = headers;
            out.push((name.clone(), value.clone()));
            out
        }
        "remove" => headers.into_iter().filter(|(n, _)| !same_name(n, name)).collect(),
        "replace" => headers
            .into_iter()
            .map(|(n, v)| if same_name(&n, name) { (name.clone(), value.clone()) } else { (n, v) })
            .collect(),
        "override" => {
            let found = headers.iter().any(|(n, _)| same_name(n, name));
            let mut out: Vec<H> = headers
                .into_iter()
                .map(|(n, v)| if same_name(&n, name) { (name.clone(), value.clone()) } else { (n, v) })
                .collect();
            if !found {
                out.push((name.clone(), value.clone()));
            }
            out
        }
        "default" => {
            let found = headers.iter().any(|(n, _)| same_name(n, name));
            let mut out = headers;
            if !found {
                out.push((name.clone(), value.clone()));
            }
            out
        }
        _ => headers,
    }
}

fn reference(headers: &[H], filters: &[F]) -> Vec<H> {
    let mut out = headers.to_vec();
    for f in filters {
        out = reference_op(out, f);
    }
    out
}

fn to_headers(h: &[H]) -> Vec<Header> {
    h.iter()
        .map(|(n, v)| Header {
            name: n.clone(),
            value: v.clone(),
        })
        .collect()
}

fn from_headers(h: Vec<Header>) -> Vec<H> {
    h.into_iter().map(|h| (h.name, h.value)).collect()
}

fn to_filters(f: &[F]) -> Vec<HeaderFilter> {
    f.iter()
        .enumerate()
        .map(|(i, (a, h, v))| HeaderFilter {
            action: a.clone(),
            header: h.clone(),
            value: v.clone(),
            id: Some(format!("unit-{i}")),
            target_hash: Some(format!("header::{}", h.to_lowercase())),
        })
        .collect()
}

fn lib_direct(headers: &[H], filters: &[F], trace: bool) -> Vec<H> {
    let mut unit_trace = UnitTrace::default();
    match FilterHeaderAction::new(to_filters(filters)) {
        None => headers.to_vec(),
        Some(a) => from_headers(a.filter(to_headers(headers), if trace { Some(&mut unit_trace) } else { None })),
    }
}

fn action_json(filters: &[F]) -> String {
    let hf: Vec<serde_json::Value> = filters
        .iter()
        .map(|(a, h, v)| {
            serde_json::json!({
                "filter": {"action": a, "header": h, "value": v, "id": null, "target_hash": null},
                "on_response_status_codes": [],
                "exclude_response_status_codes": false,
                "rule_id": "r"
            })
        })
        .collect();

    serde_json::json!({
        "status_code_update": null,
        "header_filters": hf,
        "body_filters": [],
        "rule_ids": ["r"],
        "log_override": null
    })
    .to_string()
}

fn lib_action(headers: &[H], filters: &[F], code: u16) -> Vec<H> {
    let mut action: Action = serde_json::from_str(action_json(filters).as_str()).expect("action");
    // a round trip through the serialised form, like the agent -> proxy module hand-over
    let again = serde_json::to_string(&action).expect("serialize");
    let mut action2: Action = serde_json::from_str(again.as_str()).expect("action again");

    let a = from_headers(action.filter_headers(to_headers(headers), code, false, None));
    let b = from_headers(action2.filter_headers(to_headers(headers), code, false, None));
    assert_eq!(a, b, "serialisation round trip changed the result");
    // second use of the same action
    let c = from_headers(action.filter_headers(to_headers(headers), code, false, None));
    assert_eq!(a, c, "second use of the same action changed the result");
    a
}

fn rule_json(id: &str, rank: u16, path: &str, filters: &[F], extra: &str) -> String {
    let hf: Vec<serde_json::Value> = filters
        .iter()
        .map(|(a, h, v)| serde_json::json!({"action": a, "header": h, "value": v}))
        .collect();
    format!(
        r#"{{"header_filters":{},"id":"{}","rank":{},"source":{{"path":"{}"}}{}}}"#,
        serde_json::Value::Array(hf),
        id,
        rank,
        path,
        extra
    )
}

fn lib_rules(rules: &[String], uri: &str, headers: &[H], code: u16) -> Vec<H> {
    let config = RouterConfig::default();
    let mut router = Router::<Rule>::from_config(config);
    for r in rules {
        let rule: Rule = serde_json::from_str(r.as_str()).expect("rule");
        router.insert(rule);
    }
    let default_config = RouterConfig::default();
    let request = Request::new(
        PathAndQueryWithSkipped::from_config(&default_config, uri),
        uri.to_string(),
        None,
        None,
        None,
        None,
        None,
    );
    let request = Request::rebuild_with_config(&router.config, &request);
    let matched = router.match_request(&request);
    let mut action = Action::from_routes_rule(matched, &request, None);
    from_headers(action.filter_headers(to_headers(headers), code, false, None))
}

fn s(x: &str) -> String {
    x.to_string()
}

// ---------------------------------------------------------------------------------------------
// Exhaustive comparison, k <= 3 over a 3-name alphabet (with mixed case on both sides)
// ---------------------------------------------------------------------------------------------

fn all_header_lists() -> Vec<Vec<H>> {
    // names: two case variants of "a", then "b", "C"; values: empty or not
    let atoms: Vec<H> = vec![
        (s("A"), s("1")),
        (s("a"), s("")),
        (s("b"), s("2")),
        (s("C"), s("")),
        (s("X-Other"), s("o")),
    ];
    let mut lists: Vec<Vec<H>> = vec![vec![]];
    let mut frontier: Vec<Vec<H>> = vec![vec![]];
    for _ in 0..3 {
        let mut next = Vec::new();
        for l in &frontier {
            for a in &atoms {
                let mut n = l.clone();
                n.push(a.clone());
                next.push(n);
            }
        }
        lists.extend(next.clone());
        frontier = next;
    }
    lists
}

fn all_filters() -> Vec<F> {
    let mut out = Vec::new();
    for action in ["add", "remove", "replace", "override", "default", "append", ""] {
        for name in ["a", "A", "B", "c"] {
            for value in ["", "n"] {
                if action == "remove" && value == "n" {
                    continue;
                }
                out.push((s(action), s(name), s(value)));
            }
        }
    }
    out
}

#[test]
fn exhaustive_direct() {
    let lists = all_header_lists();
    let filters = all_filters();
    let mut checked = 0u64;
    let mut bad = 0u64;

    // k = 0, 1, 2 in full over all lists
    for h in &lists {
        assert_eq!(lib_direct(h, &[], false), reference(h, &[]));
        for f1 in &filters {
            let fs = [f1.clone()];
            let exp = reference(h, &fs);
            for trace in [false, true] {
                let got = lib_direct(h, &fs, trace);
                checked += 1;
                if got != exp {
                    bad += 1;
                    if bad < 10 {
                        println!("MISMATCH h={h:?} f={fs:?} got={got:?} exp={exp:?}");
                    }
                }
            }
            for f2 in &filters {
                let fs = [f1.clone(), f2.clone()];
                let exp = reference(h, &fs);
                let got = lib_direct(h, &fs, false);
                checked += 1;
                if got != exp {
                    bad += 1;
                    if bad < 10 {
                        println!("MISMATCH h={h:?} f={fs:?} got={got:?} exp={exp:?}");
                    }
                }
            }
        }
    }

    // k = 3 over the lists of length <= 2
    for h in lists.iter().filter(|l| l.len() <= 2) {
        for f1 in &filters {
            for f2 in &filters {
                for f3 in &filters {
                    let fs = [f1.clone(), f2.clone(), f3.clone()];
                    let exp = reference(h, &fs);
                    let got = lib_direct(h, &fs, false);
                    checked += 1;
                    if got != exp {
                        bad += 1;
                        if bad < 10 {
                            println!("MISMATCH h={h:?} f={fs:?} got={got:?} exp={exp:?}");
                        }
                    }
                }
            }
        }
    }

    println!("exhaustive_direct: checked {checked}, mismatches {bad}");
    assert_eq!(bad, 0);
}

#[test]
fn exhaustive_action_and_rules() {
    let lists: Vec<Vec<H>> = all_header_lists().into_iter().filter(|l| l.len() <= 2).collect();
    let filters = all_filters();
    let mut checked = 0u64;
    let mut bad = 0u64;

    for h in &lists {
        for f1 in &filters {
            for f2 in &filters {
                let fs = [f1.clone(), f2.clone()];
                let exp = reference(h, &fs);
                let got = lib_action(h, &fs, 200);
                checked += 1;
                if got != exp {
                    bad += 1;
                    if bad < 10 {
                        println!("MISMATCH(action) h={h:?} f={fs:?} got={got:?} exp={exp:?}");
                    }
                }
            }
        }
    }

    // through rules: one rule with two filters, and the same two filters split over two rules
    // (rank 2 comes before rank 1)
    let some_lists: Vec<Vec<H>> = lists.iter().filter(|l| l.len() == 2).step_by(3).cloned().collect();
    for h in &some_lists {
        for f1 in filters.iter().step_by(2) {
            for f2 in filters.iter().step_by(3) {
                let fs = [f1.clone(), f2.clone()];
                let exp = reference(h, &fs);

                let got = lib_rules(&[rule_json("one", 1, "/foo", &fs, "")], "/foo", h, 200);
                checked += 1;
                if got != exp {
                    bad += 1;
                    if bad < 10 {
                        println!("MISMATCH(rule) h={h:?} f={fs:?} got={got:?} exp={exp:?}");
                    }
                }

                let got = lib_rules(
                    &[
                        rule_json("second", 1, "/foo", &fs[1..], ""),
                        rule_json("first", 2, "/foo", &fs[..1], ""),
                    ],
                    "/foo",
                    h,
                    200,
                );
                checked += 1;
                if got != exp {
                    bad += 1;
                    if bad < 10 {
                        println!("MISMATCH(2 rules) h={h:?} f={fs:?} got={got:?} exp={exp:?}");
                    }
                }
            }
        }
    }

    println!("exhaustive_action_and_rules: checked {checked}, mismatches {bad}");
    assert_eq!(bad, 0);
}

// ---------------------------------------------------------------------------------------------
// Probes outside of the ASCII / Vec<Header> core
// ---------------------------------------------------------------------------------------------

#[test]
fn probe_unicode_names() {
    // final sigma: "ΑΣ" and "ασ" are the same name but for the case
    for (hname, fname) in [("ΑΣ", "ασ"), ("ασ", "ΑΣ"), ("ΑΣ", "ας"), ("\u{212A}", "k"), ("k", "\u{212A}"), ("İ", "i\u{307}"), ("ß", "SS"), ("X-É", "x-é")] {
        let h = vec![(s(hname), s("v"))];
        let got = lib_direct(&h, &[(s("remove"), s(fname), s(""))], false);
        println!(
            "unicode: header {:?} remove {:?} -> {:?}   (lower: {:?} vs {:?}; upper: {:?} vs {:?})",
            hname,
            fname,
            got,
            hname.to_lowercase(),
            fname.to_lowercase(),
            hname.to_uppercase(),
            fname.to_uppercase()
        );
    }
}

#[test]
fn probe_status_code_gating() {
    // a rule limited to some response codes only filters on those; the others leave the list as it is
    let h = vec![(s("A"), s("1")), (s("b"), s("2"))];
    let fs = [(s("remove"), s("a"), s("")), (s("add"), s("N"), s("n"))];
    let rule = r#"{"header_filters":[{"action":"remove","header":"a","value":""},{"action":"add","header":"N","value":"n"}],"id":"r","rank":1,"source":{"path":"/foo","response_status_codes":[404]}}"#.to_string();
    assert_eq!(lib_rules(&[rule.clone()], "/foo", &h, 404), reference(&h, &fs));
    assert_eq!(lib_rules(&[rule.clone()], "/foo", &h, 200), h);
    let rule = r#"{"header_filters":[{"action":"remove","header":"a","value":""},{"action":"add","header":"N","value":"n"}],"id":"r","rank":1,"source":{"path":"/foo","response_status_codes":[404],"exclude_response_status_codes":true}}"#.to_string();
    assert_eq!(lib_rules(&[rule.clone()], "/foo", &h, 200), reference(&h, &fs));
    assert_eq!(lib_rules(&[rule.clone()], "/foo", &h, 404), h);
    let rule = r#"{"header_filters":[{"action":"remove","header":"a","value":""},{"action":"add","header":"N","value":"n"}],"id":"r","rank":1,"source":{"path":"/foo","response_status_codes":[404],"exclude_response_status_codes":false}}"#.to_string();
    assert_eq!(lib_rules(&[rule.clone()], "/foo", &h, 404), reference(&h, &fs));
    assert_eq!(lib_rules(&[rule.clone()], "/foo", &h, 200), h);
}

#[test]
fn probe_rule_order_and_location() {
    let h = vec![(s("location"), s("/old")), (s("b"), s("2")), (s("LOCATION"), s("/old2"))];
    // target + filters in one rule: Location override first, then the filters of the rule
    let rule = r#"{"header_filters":[{"action":"add","header":"location","value":"/added"},{"action":"default","header":"LoCaTiOn","value":"/default"}],"id":"r","rank":1,"source":{"path":"/foo"},"target":"/new","status_code":301}"#.to_string();
    let exp = reference(
        &h,
        &[(s("override"), s("Location"), s("/new")), (s("add"), s("location"), s("/added")), (s("default"), s("LoCaTiOn"), s("/default"))],
    );
    assert_eq!(lib_rules(&[rule], "/foo", &h, 200), exp);

    // same rank: the order is the one of the ids, descending
    let r_a = rule_json("a", 1, "/foo", &[(s("override"), s("X"), s("from-a"))], "");
    let r_b = rule_json("b", 1, "/foo", &[(s("override"), s("X"), s("from-b"))], "");
    println!("same rank a,b -> {:?}", lib_rules(&[r_a.clone(), r_b.clone()], "/foo", &[], 200));
    println!("same rank b,a -> {:?}", lib_rules(&[r_b, r_a], "/foo", &[], 200));

    // markers in values, '@' kept when it names nothing, names are never templates
    let rule = r#"{"header_filters":[{"action":"add","header":"X-@m","value":"v=@m;@n;a@b.c"}],"id":"r","rank":1,"source":{"path":"/foo/@m"},"markers":[{"name":"m","regex":"[a-z]+"}]}"#.to_string();
    assert_eq!(lib_rules(&[rule], "/foo/bar", &[], 200), vec![(s("X-@m"), s("v=bar;@n;a@b.c"))]);
}

#[test]
fn probe_remove_without_value() {
    // what an editor could send for "remove": no value at all, or null
    let a: Result<Rule, _> = serde_json::from_str(r#"{"header_filters":[{"action":"remove","header":"X-Foo"}],"id":"r","rank":1,"source":{"path":"/foo"}}"#);
    let b: Result<Rule, _> = serde_json::from_str(r#"{"header_filters":[{"action":"remove","header":"X-Foo","value":null}],"id":"r","rank":1,"source":{"path":"/foo"}}"#);
    println!("remove without value: {:?}", a.as_ref().err().map(|e| e.to_string()));
    println!("remove with null value: {:?}", b.as_ref().err().map(|e| e.to_string()));
}

// ---------------------------------------------------------------------------------------------
// The C entry point used by the web-server modules
// ---------------------------------------------------------------------------------------------

use std::ffi::{CStr, CString};
use std::os::raw::c_char;

#[repr(C)]
struct CHeaderMap {
    name: *const c_char,
    value: *const c_char,
    next: *mut CHeaderMap,
}

unsafe extern "C" {
    fn redirectionio_action_json_deserialize(str: *mut c_char) -> *const Action;
    fn redirectionio_action_header_filter_filter(
        action: *mut Action,
        header_map: *const CHeaderMap,
        response_status_code: u16,
        add_rule_ids_header: bool,
    ) -> *const CHeaderMap;
}

/// builds the list in the order of the slice: the head is the first element
fn c_list(headers: &[(Vec<u8>, Vec<u8>)]) -> *const CHeaderMap {
    let mut head: *mut CHeaderMap = std::ptr::null_mut();
    for (n, v) in headers.iter().rev() {
        head = Box::into_raw(Box::new(CHeaderMap {
            name: CString::new(n.clone()).unwrap().into_raw(),
            value: CString::new(v.clone()).unwrap().into_raw(),
            next: head,
        }));
    }
    head
}

fn c_read(mut p: *const CHeaderMap) -> Vec<(Option<Vec<u8>>, Option<Vec<u8>>)> {
    let mut out = Vec::new();
    while !p.is_null() {
        let node = unsafe { &*p };
        let rd = |q: *const c_char| if q.is_null() { None } else { Some(unsafe { CStr::from_ptr(q) }.to_bytes().to_vec()) };
        out.push((rd(node.name), rd(node.value)));
        p = node.next;
    }
    out
}

fn show(l: &[(Option<Vec<u8>>, Option<Vec<u8>>)]) -> Vec<(String, String)> {
    l.iter()
        .map(|(n, v)| {
            (
                n.as_ref().map(|b| String::from_utf8_lossy(b).to_string()).unwrap_or_else(|| s("<NULL>")),
                v.as_ref().map(|b| String::from_utf8_lossy(b).to_string()).unwrap_or_else(|| s("<NULL>")),
            )
        })
        .collect()
}

fn c_action(filters: &[F]) -> *mut Action {
    let json = CString::new(action_json(filters)).unwrap();
    let a = unsafe { redirectionio_action_json_deserialize(json.into_raw()) };
    assert!(!a.is_null());
    a as *mut Action
}

#[test]
fn probe_ffi_order() {
    let input: Vec<(Vec<u8>, Vec<u8>)> = vec![
        (b"Set-Cookie".to_vec(), b"a=1".to_vec()),
        (b"Set-Cookie".to_vec(), b"a=2".to_vec()),
        (b"X-Empty".to_vec(), b"".to_vec()),
    ];
    let action = c_action(&[(s("add"), s("X-New"), s("n"))]);
    let out = c_read(unsafe { redirectionio_action_header_filter_filter(action, c_list(&input), 200, false) });
    println!("ffi order: in  = {:?}", input.iter().map(|(n, v)| (String::from_utf8_lossy(n).to_string(), String::from_utf8_lossy(v).to_string())).collect::<Vec<_>>());
    println!("ffi order: out = {:?}", show(&out));
}

#[test]
fn probe_ffi_non_utf8_value() {
    // a latin-1 file name, as many backends still send it
    let input: Vec<(Vec<u8>, Vec<u8>)> = vec![
        (b"Content-Type".to_vec(), b"application/pdf".to_vec()),
        (b"Content-Disposition".to_vec(), b"attachment; filename=\"caf\xe9.pdf\"".to_vec()),
        (b"X-Bar".to_vec(), b"bar".to_vec()),
    ];
    // an action whose only filter concerns another header
    let action = c_action(&[(s("add"), s("X-New"), s("n"))]);
    let out = c_read(unsafe { redirectionio_action_header_filter_filter(action, c_list(&input), 200, false) });
    println!("ffi latin-1 (add X-New): out = {:?}", show(&out));
    let kept = out.iter().any(|(n, _)| n.as_deref() == Some(b"Content-Disposition".as_ref()));

    // an action without any header filter at all
    let action = c_action(&[]);
    let out2 = c_read(unsafe { redirectionio_action_header_filter_filter(action, c_list(&input), 200, false) });
    println!("ffi latin-1 (no filter): out = {:?}", show(&out2));
    let kept2 = out2.iter().any(|(n, _)| n.as_deref() == Some(b"Content-Disposition".as_ref()));

    assert!(kept && kept2, "a header no filter names was dropped from the response: kept={kept} kept2={kept2}");
}

#[test]
fn probe_ffi_nul_in_filter_value() {
    let input: Vec<(Vec<u8>, Vec<u8>)> = vec![(b"X-Bar".to_vec(), b"bar".to_vec())];
    let action = c_action(&[(s("add"), s("X-New"), s("a\u{0}b"))]);
    let out = c_read(unsafe { redirectionio_action_header_filter_filter(action, c_list(&input), 200, false) });
    println!("ffi NUL in value: out = {:?}", show(&out));
}

// ---------------------------------------------------------------------------------------------
// Longer random sequences (k <= 8, lists <= 8), with and without a unit trace
// ---------------------------------------------------------------------------------------------

#[test]
fn random_longer_sequences() {
    let mut state: u64 = 0x9E3779B97F4A7C15;
    let mut next = move |n: usize| -> usize {
        state = state.wrapping_mul(6364136223846793005).wrapping_add(1442695040888963407);
        ((state >> 33) as usize) % n
    };
    let names = ["a", "A", "b", "B", "c", "C", "X-Other", ""];
    let values = ["", "1", "2", " spaced ", "a,b"];
    let actions = ["add", "remove", "replace", "override", "default", "Add", "unknown"];
    let mut bad = 0;

    for _ in 0..20000 {
        let h: Vec<H> = (0..next(9)).map(|_| (s(names[next(names.len())]), s(values[next(values.len())]))).collect();
        let fs: Vec<F> = (0..next(9))
            .map(|_| (s(actions[next(actions.len())]), s(names[next(names.len())]), s(values[next(values.len())])))
            .collect();
        let exp = reference(&h, &fs);
        let got = lib_direct(&h, &fs, true);
        let got2 = lib_action(&h, &fs, 0);
        if got != exp || got2 != exp {
            bad += 1;
            println!("MISMATCH h={h:?} f={fs:?} got={got:?} got2={got2:?} exp={exp:?}");
        }
    }
    assert_eq!(bad, 0);
}

#[test]
fn probe_ffi_non_utf8_value_named_by_a_filter() {
    let input: Vec<(Vec<u8>, Vec<u8>)> = vec![
        (b"Content-Disposition".to_vec(), b"attachment; filename=\"caf\xe9.pdf\"".to_vec()),
        (b"X-Bar".to_vec(), b"bar".to_vec()),
    ];
    for op in ["replace", "default", "override"] {
        let action = c_action(&[(s(op), s("content-disposition"), s("inline"))]);
        let out = c_read(unsafe { redirectionio_action_header_filter_filter(action, c_list(&input), 200, false) });
        println!("ffi latin-1 ({op} content-disposition: inline): out = {:?}", show(&out));
    }
}
