//! C05 — the computed action reflects exactly the matched rules, in priority order.
use crate::engine::*;
use crate::gen::*;
use crate::mfold;
use crate::props::c13::{compare, m_headers};
use crate::spec::*;
use proptest::prelude::*;
use redirectionio::action::Action;
use redirectionio::api::Rule;
use redirectionio::http::Header;
use redirectionio::router::{IntoRoute, Route};
use serde::{Deserialize, Serialize};
use serde_json::Value;
use std::collections::BTreeSet;
use std::sync::Arc;

#[derive(Serialize, Deserialize, Clone, Debug, PartialEq)]
pub struct Case {
    pub rules: Vec<RuleSpec>,
    /// order in which the matched routes are handed to Action::from_routes_rule
    pub order: Vec<u16>,
    pub sampling_override: Option<bool>,
}

pub fn shuffled<T: Clone>(v: &[T], keys: &[u16]) -> Vec<T> {
    let mut idx: Vec<usize> = (0..v.len()).collect();
    idx.sort_by_key(|i| (keys.get(*i).copied().unwrap_or(0), *i));
    idx.into_iter().map(|i| v[i].clone()).collect()
}

pub fn routes_of(rules: &[RuleSpec]) -> Vec<Arc<Route<Rule>>> {
    let cfg = ConfigSpec::default().to_lib();
    rules.iter().map(|r| Arc::new(r.to_lib().into_route(&cfg))).collect()
}

pub fn probe_codes(rules: &[RuleSpec]) -> Vec<u16> {
    let mut s: BTreeSet<u16> = [0u16, 200, 500, 301].into_iter().collect();
    for r in rules {
        s.extend(mfold::codes(r).iter().copied());
    }
    s.into_iter().collect()
}

pub fn input_headers() -> Vec<(String, String)> {
    vec![("X-Shared".to_string(), "orig".to_string()), ("Location".to_string(), "/orig".to_string()), ("Other".to_string(), "o".to_string())]
}

/// Compare every observable effect of `action` at response code `c` with the reference fold over `e`.
pub fn compare_effects(action: &Action, e: &[RuleSpec], c: u16, target: &dyn Fn(&RuleSpec) -> Option<String>) -> Option<String> {
    // status
    let got = action.clone().get_status_code(c, None);
    let (exp, _) = mfold::status(e, c);
    if got != exp {
        return Some(format!("code {c}: get_status_code = {got}, reference = {exp}"));
    }
    // headers, with the rule-ids header
    let h0 = input_headers();
    let input: Vec<Header> = h0.iter().map(|(n, v)| Header { name: n.clone(), value: v.clone() }).collect();
    let mut got_h = action.clone().filter_headers(input, c, true, None);
    let exp_h = m_headers(&h0, &mfold::header_filters(e, c, target));
    // the rule-ids header comes last; its value is compared as a set (its order is the insertion order of a
    // linked set that moves re-inserted ids to the back, which the statement does not constrain)
    match got_h.pop() {
        Some(h) if h.name == "X-RedirectionIo-RuleIds" => {
            let got_ids: BTreeSet<String> = h.value.split(';').filter(|s| !s.is_empty()).map(|s| s.to_string()).collect();
            let exp_ids: BTreeSet<String> = mfold::admitted_ids(e, c).into_iter().collect();
            if got_ids != exp_ids || h.value.split(';').filter(|s| !s.is_empty()).count() != got_ids.len() {
                return Some(format!("code {c}: rule-ids header {:?}, reference set {:?}", h.value, exp_ids));
            }
        }
        other => return Some(format!("code {c}: rule-ids header missing, last header is {:?}", other.map(|h| h.name))),
    }
    if let Some(m) = compare(&exp_h, &got_h, &format!("code {c}: filter_headers")) {
        return Some(m);
    }
    // body
    let filters = mfold::body_filters(e, c);
    let mut a2 = action.clone();
    let got_b = match a2.create_filter_body(c, &[]) {
        None => {
            if !filters.is_empty() {
                return Some(format!("code {c}: create_filter_body returned None but {} filters are admitted", filters.len()));
            }
            mfold::PROBE_BODY.as_bytes().to_vec()
        }
        Some(mut f) => {
            if filters.is_empty() {
                return Some(format!("code {c}: create_filter_body returned a filter although no body filter is admitted"));
            }
            let mut o = f.filter(mfold::PROBE_BODY.as_bytes().to_vec(), None);
            o.extend(f.end(None));
            o
        }
    };
    let exp_b = mfold::apply_tagged_body_filters(mfold::PROBE_BODY, &filters);
    if got_b != exp_b.as_bytes() {
        return Some(format!("code {c}: body {:?}, reference {:?}", String::from_utf8_lossy(&got_b), exp_b));
    }
    // logging
    for default in [true, false] {
        let got_l = action.clone().should_log_request(default, c, None);
        let (exp_l, _) = mfold::log(e, default, c);
        if got_l != exp_l {
            return Some(format!("code {c}: should_log_request({default}) = {got_l}, reference = {exp_l}"));
        }
    }
    // applied ids along the proxy call order
    let mut a = action.clone();
    let mut exp_ids: BTreeSet<String> = BTreeSet::new();
    let s0 = a.get_status_code(0, None);
    exp_ids.extend(mfold::status(e, 0).1);
    let b = if c == 0 { 200 } else { c };
    let (final_code, backend) = if s0 != 0 {
        (s0, s0)
    } else {
        let s1 = a.get_status_code(b, None);
        exp_ids.extend(mfold::status(e, b).1);
        (s1, b)
    };
    a.filter_headers(Vec::new(), backend, false, None);
    if let Some(mut f) = a.create_filter_body(backend, &[]) {
        f.filter(mfold::PROBE_BODY.as_bytes().to_vec(), None);
        f.end(None);
    }
    a.should_log_request(true, final_code, None);
    exp_ids.extend(mfold::admitted_ids(e, backend));
    exp_ids.extend(mfold::log(e, true, final_code).1);
    let got_ids: BTreeSet<String> = a.get_applied_rule_ids().iter().cloned().collect();
    if got_ids != exp_ids {
        return Some(format!("backend code {b}: applied rule ids {:?}, reference {:?}", got_ids, exp_ids));
    }
    None
}

pub fn plain_target(r: &RuleSpec) -> Option<String> {
    r.target.clone()
}

pub fn check(case: &Case) -> Outcome {
    let mut out = Outcome::new();
    let req = RequestSpec { uri: "/foo".into(), sampling_override: case.sampling_override, ..Default::default() }.build(&ConfigSpec::default().to_lib());
    let routes = shuffled(&routes_of(&case.rules), &case.order);
    let action = Action::from_routes_rule(routes, &req, None);
    let e = mfold::effective(&case.rules, case.sampling_override);
    let codes = probe_codes(&case.rules);
    out.evals = codes.len() as u64;
    for c in codes {
        if let Some(m) = compare_effects(&action, &e, c, &plain_target) {
            out.fail(m);
            return out;
        }
    }
    let cond = e.iter().any(|r| mfold::conditional(r) && (r.status_code.unwrap_or(0) != 0 || r.log_override.is_some()));
    let mut ranks: Vec<u16> = case.rules.iter().map(|r| r.rank).collect();
    ranks.sort();
    let tie = ranks.windows(2).any(|w| w[0] == w[1]);
    let reset = case.rules.iter().any(|r| r.reset == Some(true));
    let stop = case.rules.iter().any(|r| r.stop == Some(true));
    let sampling = case.rules.iter().any(|r| r.source.sampling.is_some());
    if tie {
        out.class("rank-tie");
    }
    if reset {
        out.class("reset");
    }
    if stop {
        out.class("stop");
    }
    if sampling {
        out.class("sampling");
    }
    if e.iter().filter(|r| r.status_code.unwrap_or(0) != 0).count() >= 2 {
        out.class(">=2-status-rules");
    }
    if cond {
        out.class("conditional-status-or-log");
    }
    out.nontrivial = e.len() >= 3 && cond && (tie || reset || stop || sampling);
    out
}

pub fn case_strategy(max: usize) -> BoxedStrategy<Case> {
    (
        prop::collection::vec((action_part_strategy(RuleOpts::FULL), any::<u16>()), 1..=max),
        pickw(vec![(4u32, None), (1, Some(true)), (1, Some(false))]),
        any::<u16>(),
    )
        .prop_map(|(parts, sampling_override, idseed)| {
            let n = parts.len();
            let mut rules = Vec::new();
            let mut order = Vec::new();
            for (i, (a, k)) in parts.into_iter().enumerate() {
                // ids are a rotation of the positions so that id order is independent of list order
                let idn = (i + idseed as usize) % n;
                let src = SourceSpec { path: "/foo".to_string(), ..Default::default() };
                rules.push(assemble_rule(format!("r{idn:02}"), src, Vec::new(), &a));
                order.push(k);
            }
            if idseed % 3 == 0 {
                rename_tricky(&mut rules, idseed as usize / 3);
            }
            Case { rules, order, sampling_override }
        })
        .boxed()
}

pub fn run(ctx: &Ctx) -> Report {
    let mut rep = Report::new(
        "C05",
        "case = 1..7 matched rules (ranks 0..3 with ties, status codes, include/exclude response-code sets, 0..2 header filters and 0..1 body filter tagged with the rule id, log override, reset, stop, sampling in {none,0,100,1000} x override) handed to Action::from_routes_rule in a generated order; \
         oracle = for every code in {0,200,301,500} u codes(R): get_status_code, filter_headers (with the rule-ids header), body-filter output on a probe document, should_log_request for both defaults and the applied-rule set along the proxy call order == the reference fold over the rules sorted by (rank desc, id desc); \
         non-trivial = >=3 effective rules with >=1 conditional status or log rule and >=1 of {rank tie, reset, stop, sampling}; distinct by case hash",
    );
    rep.assume("domain exclusion O6: the exclude flag is only generated as true together with a non-empty code set");
    rep.assume("sampling restricted to the deterministic points (rate 0 / >=100, override true/false) because the library draws from rand::random");
    rep.add(run_part(ctx, "fold", ctx.cases(600_000, 20_000_000), || case_strategy(7), check, &[]));
    rep
}

pub fn replay(_part: &str, case: &Value) -> Result<Outcome, String> {
    replay_case::<Case, _>(case, check)
}
