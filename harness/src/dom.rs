//! G-dom / G-soup / G-partition: generated documents carrying their exact source text, a reference DOM edit,
//! and chunk schedules.
use crate::engine::{pick, pickw};
use proptest::prelude::*;
use serde::{Deserialize, Serialize};

pub const VOID: &[&str] = &["area", "base", "br", "col", "embed", "hr", "img", "input", "link", "meta", "param", "source", "track", "wbr"];
pub const RAW: &[&str] = &["script", "style", "textarea", "title"];

#[derive(Serialize, Deserialize, Clone, Debug, PartialEq)]
pub enum Node {
    Elem(Elem),
    Text(String),
    /// full source, e.g. `<!-- x -->`
    Comment(String),
    /// raw-text element: (start tag source, content, end tag source)
    Raw(String, String, String),
}

#[derive(Serialize, Deserialize, Clone, Debug, PartialEq)]
pub struct Elem {
    /// lower-case tag name
    pub tag: String,
    /// exact source of the start tag, e.g. `<DIV class="a" >` or `<br/>`
    pub start: String,
    /// exact source of the end tag (`</div >`), empty for void / self-closing elements
    pub end: String,
    pub children: Vec<Node>,
    /// carries the class the selector looks for
    pub hit: bool,
}

impl Node {
    pub fn write(&self, out: &mut String) {
        match self {
            Node::Elem(e) => {
                out.push_str(&e.start);
                for c in &e.children {
                    c.write(out);
                }
                out.push_str(&e.end);
            }
            Node::Text(t) => out.push_str(t),
            Node::Comment(c) => out.push_str(c),
            Node::Raw(s, c, e) => {
                out.push_str(s);
                out.push_str(c);
                out.push_str(e);
            }
        }
    }
    pub fn has_hit(&self) -> bool {
        match self {
            Node::Elem(e) => e.hit || e.children.iter().any(|c| c.has_hit()),
            _ => false,
        }
    }
}

pub fn serialize(nodes: &[Node]) -> String {
    let mut s = String::new();
    for n in nodes {
        n.write(&mut s);
    }
    s
}

// ---------------------------------------------------------------------------------------------
// element construction
#[derive(Clone, Debug)]
pub struct ElemStyle {
    pub upper: bool,
    pub attrs: String,
    pub space_before_gt: bool,
    pub end_space: bool,
}

pub fn attrs_strategy() -> BoxedStrategy<String> {
    let attr = pick(vec![
        " id=x", " class=\"a b\"", " class='c'", " data-x=\"a>b\"", " data-y='<p>'", " hidden", " title=\"x &amp; y\"", " CLASS=UP", "  data-z = \"spaced\"", " data-e=\"\"", " href=\"/a?b=1&c=2\"", " data-q=\"it's\"",
        " data-div=\"<div>\"", " data-end=\"</body>\"", "\n  lang=\"fr\"", " data-u=\"é日本\"",
        // unquoted values ending in a slash: the slash belongs to the value, it does not close the tag
        " href=/docs/", " data-s=a/",
    ]);
    prop::collection::vec(attr, 0..3).prop_map(|v| v.concat()).boxed()
}

pub fn style_strategy() -> BoxedStrategy<ElemStyle> {
    (prop::bool::weighted(0.15), attrs_strategy(), prop::bool::weighted(0.15), prop::bool::weighted(0.1))
        .prop_map(|(upper, attrs, space_before_gt, end_space)| ElemStyle { upper, attrs, space_before_gt, end_space })
        .boxed()
}

pub const HIT_ATTRS: &[&str] = &[" class=\"sel-hit\"", " class='sel-hit'", " class=sel-hit", " CLASS=\"sel-hit\"", " class=\"x sel-hit\""];

pub fn make_elem(tag: &str, st: &ElemStyle, children: Vec<Node>, hit: Option<usize>, form: u8) -> Elem {
    // form: 0 = normal / void as `<br>`, 1 = self-closing syntax `<x/>` (children dropped), 2 = `<x />`
    let name = if st.upper { tag.to_uppercase() } else { tag.to_string() };
    let hit_attr = hit.map(|h| HIT_ATTRS[h % HIT_ATTRS.len()]).unwrap_or("");
    // a second class attribute would be dropped by every HTML parser: the hit is the only class
    let attrs_owned = if hit.is_some() && st.attrs.to_lowercase().contains("class") { " id=x".to_string() } else { st.attrs.clone() };
    let st = &ElemStyle { attrs: attrs_owned, ..st.clone() };
    let is_void = VOID.contains(&tag);
    if form != 0 {
        // an unquoted value directly before "/>" would swallow the slash: quote the hit there
        let hit_attr = if hit_attr == " class=sel-hit" { " class=\"sel-hit\"" } else { hit_attr };
        // likewise after any unquoted value: `<x id=a/>` is a start tag whose id is "a/"; write `<x id=a />`
        let tail = format!("{}{hit_attr}", st.attrs);
        let last = tail.trim_end().rsplit(char::is_whitespace).next().unwrap_or("");
        let unquoted_last = last.contains('=') && !last.ends_with('"') && !last.ends_with('\'');
        let start = format!("<{name}{tail}{}/>", if form == 2 || unquoted_last { " " } else { "" });
        return Elem { tag: tag.to_string(), start, end: String::new(), children: Vec::new(), hit: hit.is_some() };
    }
    let start = format!("<{name}{hit_attr}{}{}>", st.attrs, if st.space_before_gt { " " } else { "" });
    if is_void {
        return Elem { tag: tag.to_string(), start, end: String::new(), children: Vec::new(), hit: hit.is_some() };
    }
    let end = format!("</{name}{}>", if st.end_space { " " } else { "" });
    Elem { tag: tag.to_string(), start, end, children, hit: hit.is_some() }
}

pub const FILL_TAGS: &[&str] = &["p", "span", "em", "a", "b", "i", "h1", "h2", "li", "strong"];
pub const FILL_VOID: &[&str] = &["br", "img", "input", "hr", "wbr"];
pub const PATH_TAGS: &[&str] = &["html", "head", "body", "div", "section", "article", "main", "ul", "nav", "aside", "header", "footer"];

/// text that every tokenizer reads as text wherever it stands (a '<' is always followed by a character that cannot
/// start a tag, and never ends the text)
pub fn text_strategy() -> BoxedStrategy<String> {
    pick(vec!["x", "hello world", "a < b", "1 > 0", "&amp; &lt;", "é日本", "\n  ", " ", "x<3", "100%", "\"quoted\"", "it's", "&nbsp;", "emoji 🤘", "a<1 and b>2", "i x<0 and y < 0 then x*y>0", "->", "]]>"])
        .prop_map(|s| s.to_string())
        .boxed()
}

/// decoys: comments and raw-text elements whose content mentions tags that filters look for
pub fn decoy_strategy(decoy_tags: Vec<String>) -> BoxedStrategy<Node> {
    let tags = if decoy_tags.is_empty() { vec!["div".to_string()] } else { decoy_tags };
    let t2 = tags.clone();
    prop_oneof![
        // raw-text elements and comments WITHOUT markup inside (cuts inside them are outside the D7 zones)
        2 => pick(vec![("<title>", "A plain title", "</title>"), ("<textarea>", "some text \u{e9}", "</textarea>"), ("<style>", "p > a { color: red }", "</style>"), ("<script>", "var a = 1 > 0;", "</script>"), ("<TITLE>", "T", "</TITLE>"),
            // a '<' directly before the end tag, '<<' (still no markup inside)
            ("<title>", "a <", "</title>"), ("<style>", "a<<", "</style>"), ("<textarea>", "1 < 2 <", "</textarea>"), ("<title>", "<", "</title>"), ("<script>", "if (a<", "</script>")]).prop_map(|(s, c, e)| Node::Raw(s.to_string(), c.to_string(), e.to_string())),
        1 => pick(vec!["<!-- plain comment -->", "<!--x-->"]).prop_map(|s| Node::Comment(s.to_string())),
        3 => (pick(tags.clone()), pick(vec!["<!--", "<!-- ", "<!--\n"]), pick(vec!["-->", " -->", "--!>"])).prop_map(|(t, o, c)| Node::Comment(format!("{o}<{t}>x</{t}>{c}"))),
        1 => pick(vec!["<!---->", "<!-- a -- b -->", "<!-- > -->", "<!--x->-->", "<?xml x?>", "<!DOCTYPE html>", "<![CDATA[ <div> ]]>", "</>", "<!>"]).prop_map(|s| Node::Comment(s.to_string())),
        3 => (pick(t2), pick(vec![("<script>", "</script>"), ("<SCRIPT type=\"text/javascript\">", "</SCRIPT>"), ("<style>", "</style>"), ("<textarea>", "</textarea>"), ("<script>", "</script >")]), pick(vec![0u8, 1, 2, 3]))
            .prop_map(|(t, (s, e), k)| {
                let content = match k {
                    0 => format!("document.write(\"<{t}>x</{t}>\");"),
                    1 => format!("if (a<b) {{ x = '</{t}>'; }}"),
                    2 => format!("<!-- <{t}> --> var s = \"<script>\";"),
                    _ => format!("</{t}><{t} class=\"sel-hit\">"),
                };
                Node::Raw(s.to_string(), content, e.to_string())
            }),
    ]
    .boxed()
}

/// free content without any of the tags in `forbidden` (as elements); decoys may mention them
pub fn fill_strategy(depth: u32, decoy_tags: Vec<String>) -> BoxedStrategy<Vec<Node>> {
    let leaf = prop_oneof![
        4 => text_strategy().prop_map(Node::Text),
        2 => decoy_strategy(decoy_tags.clone()),
        2 => (pick(FILL_VOID.to_vec()), style_strategy(), 0u8..3).prop_map(|(t, st, form)| Node::Elem(make_elem(t, &st, vec![], None, form))),
        1 => (pick(FILL_TAGS.to_vec()), style_strategy()).prop_map(|(t, st)| Node::Elem(make_elem(t, &st, vec![], None, 0))),
        // elements whose end tag HTML lets authors omit (`<li>a<li>b`, `<p>one<p>two`): a start tag and nothing else, as far
        // as the filters are concerned (none of these names is ever on a filter path)
        1 => (pick(vec!["p", "li", "dt", "dd"]), style_strategy()).prop_map(|(t, st)| {
            let mut e = make_elem(t, &st, vec![], None, 0);
            e.end = String::new();
            Node::Elem(e)
        }),
    ];
    let node = leaf.prop_recursive(depth, 12, 3, |inner| {
        (pick(FILL_TAGS.to_vec()), style_strategy(), prop::collection::vec(inner, 0..3)).prop_map(|(t, st, ch)| Node::Elem(make_elem(t, &st, merge_text(ch), None, 0)))
    });
    prop::collection::vec(node, 0..3).prop_map(merge_text).boxed()
}

/// adjacent text nodes are one text node for every parser; keep the tree canonical
pub fn merge_text(nodes: Vec<Node>) -> Vec<Node> {
    let mut out: Vec<Node> = Vec::new();
    for n in nodes {
        match (&mut out.last_mut(), &n) {
            (Some(Node::Text(a)), Node::Text(b)) => a.push_str(b),
            _ => out.push(n),
        }
    }
    out
}

// ---------------------------------------------------------------------------------------------
// reference DOM edit
#[derive(Serialize, Deserialize, Clone, Debug, PartialEq)]
pub struct FilterSpec {
    /// "append_child" | "prepend_child" | "replace"
    pub action: String,
    pub path: Vec<String>,
    /// None / Some("") = no selector
    pub selector: Option<String>,
    /// the value as a tree (its serialisation is what the library receives)
    pub value: Vec<Node>,
}

impl FilterSpec {
    pub fn to_json(&self) -> serde_json::Value {
        serde_json::json!({"action": self.action, "value": serialize(&self.value), "inner_value": null, "element_tree": self.path, "css_selector": self.selector, "id": null, "target_hash": null})
    }
    pub fn to_lib(&self) -> redirectionio::api::BodyFilter {
        serde_json::from_value(self.to_json()).expect("body filter json")
    }
}

/// tag of the first element flagged `hit` in document order
pub fn first_hit_tag(nodes: &[Node]) -> Option<String> {
    for n in nodes {
        if let Node::Elem(e) = n {
            if e.hit {
                return Some(e.tag.clone());
            }
            if let Some(t) = first_hit_tag(&e.children) {
                return Some(t);
            }
        }
    }
    None
}

fn has_hit_with_tag(n: &Node, tag: Option<&str>) -> bool {
    match n {
        Node::Elem(e) => (e.hit && tag.map(|t| t == e.tag).unwrap_or(true)) || e.children.iter().any(|c| has_hit_with_tag(c, tag)),
        _ => false,
    }
}

fn selector_hits(n: &Node, selector: &str) -> bool {
    // generated selectors: `.sel-hit`, `<type>.sel-hit` (element type + class) and `.no-such-class`
    match selector.strip_suffix(".sel-hit") {
        Some("") => has_hit_with_tag(n, None),
        Some(ty) => has_hit_with_tag(n, Some(ty)),
        None => false,
    }
}

/// Apply one filter to the forest: descend along direct children named like the path; act on every
/// sibling occurrence of the last element.
pub fn reference_edit(nodes: &mut Vec<Node>, f: &FilterSpec, level: usize) {
    let last = level + 1 == f.path.len();
    let mut i = 0;
    while i < nodes.len() {
        let is_target = matches!(&nodes[i], Node::Elem(e) if e.tag == f.path[level]);
        if !is_target {
            i += 1;
            continue;
        }
        if !last {
            if let Node::Elem(e) = &mut nodes[i] {
                reference_edit(&mut e.children, f, level + 1);
            }
            i += 1;
            continue;
        }
        let sel = f.selector.as_deref().unwrap_or("");
        let hit = !sel.is_empty() && selector_hits(&nodes[i], sel);
        match f.action.as_str() {
            "append_child" => {
                if sel.is_empty() || !hit {
                    if let Node::Elem(e) = &mut nodes[i] {
                        e.children.extend(f.value.clone());
                    }
                }
                i += 1;
            }
            "prepend_child" => {
                if sel.is_empty() || !hit {
                    if let Node::Elem(e) = &mut nodes[i] {
                        let mut v = f.value.clone();
                        v.append(&mut e.children);
                        e.children = v;
                    }
                }
                i += 1;
            }
            "replace" => {
                if sel.is_empty() || hit {
                    nodes.splice(i..i + 1, f.value.clone());
                    i += f.value.len();
                } else {
                    i += 1;
                }
            }
            _ => i += 1,
        }
    }
}

// ---------------------------------------------------------------------------------------------
// soup: malformed and truncated markup
pub const SOUP: &[&str] = &[
    "<html>", "</html>", "<head>", "</head>", "<body>", "</body>", "<div>", "</div>", "<div class=\"a\">", "<p>", "</p>", "<span>", "</span>", "<br>", "<br/>", "<meta name=\"d\">", "<p", "</", "<", "<!-", "<!--", "-->", "<![CDATA[",
    "]]>", "<script>", "</script>", "<script", "</scr", "ipt>", "\"", "'", "=", ">", "text", " ", "a < b", "é", "日本", "<style>", "</style>", "<title>", "</title>", "<!DOCTYPE html>", "<div id='", "x>y", "</div", "<DIV>", "</DIV >",
    "&amp;", "\n", "<ul><li>", "</li></ul>", "<a href=\"/x\">", "</a>", "<img src=x>", "<textarea>", "</textarea>", "--", "!", "/>", "<x/>", "<div/>",
    "<html><head><title>Tt</title></head>", "<title>x y</title>", "<textarea>ab</textarea>", "<html><head>", "<body><div>", "</div></body></html>", "<style>a{}</style>",
];

pub fn soup_strategy(max: usize) -> BoxedStrategy<String> {
    prop::collection::vec(0..SOUP.len(), 0..max).prop_map(|v| v.into_iter().map(|i| SOUP[i]).collect::<String>()).boxed()
}

/// structure-breaking mutations of a well-formed document
pub fn mutate(doc: &str, kind: u8, a: u16, b: u16) -> String {
    let chars: Vec<char> = doc.chars().collect();
    if chars.is_empty() {
        return String::new();
    }
    let n = chars.len();
    let i = (a as usize * n) >> 16;
    let j = (b as usize * n) >> 16;
    let (lo, hi) = (i.min(j), i.max(j));
    match kind % 4 {
        0 => chars[..hi.max(1)].iter().collect(),                                            // truncate
        1 => chars[..lo].iter().chain(chars[hi..].iter()).collect(),                         // delete a range
        2 => chars[..hi].iter().chain(chars[lo..hi].iter()).chain(chars[hi..].iter()).collect(), // duplicate a range
        _ => {
            // drop one end tag
            let s: String = chars.iter().collect();
            let ends: Vec<usize> = s.match_indices("</").map(|(p, _)| p).collect();
            if ends.is_empty() {
                s
            } else {
                let p = ends[(a as usize) % ends.len()];
                let close = s[p..].find('>').map(|k| p + k + 1).unwrap_or(s.len());
                format!("{}{}", &s[..p], &s[close..])
            }
        }
    }
}

// ---------------------------------------------------------------------------------------------
// chunk schedules
#[derive(Serialize, Deserialize, Clone, Debug, PartialEq)]
pub enum Schedule {
    Whole,
    Bytewise,
    /// one cut at this byte offset
    Two(usize),
    /// cut points (byte offsets, may repeat => empty chunks)
    Cuts(Vec<usize>),
    Stride(usize),
}

pub fn chunks<'a>(body: &'a [u8], s: &Schedule) -> Vec<&'a [u8]> {
    let n = body.len();
    match s {
        Schedule::Whole => vec![body],
        Schedule::Bytewise => (0..n).map(|i| &body[i..i + 1]).collect(),
        Schedule::Two(c) => {
            let c = (*c).min(n);
            vec![&body[..c], &body[c..]]
        }
        Schedule::Cuts(cs) => {
            let mut cs: Vec<usize> = cs.iter().map(|c| (*c).min(n)).collect();
            cs.sort();
            let mut out = Vec::new();
            let mut prev = 0;
            for c in cs {
                out.push(&body[prev..c]);
                prev = c;
            }
            out.push(&body[prev..]);
            out
        }
        Schedule::Stride(k) => {
            let k = (*k).max(1);
            let mut out: Vec<&[u8]> = body.chunks(k).collect();
            if out.is_empty() {
                out.push(body);
            }
            out
        }
    }
}

pub fn cut_positions(body_len: usize, s: &Schedule) -> Vec<usize> {
    match s {
        Schedule::Whole => vec![],
        Schedule::Bytewise => (1..body_len).collect(),
        Schedule::Two(c) => vec![(*c).min(body_len)],
        Schedule::Cuts(cs) => cs.iter().map(|c| (*c).min(body_len)).collect(),
        Schedule::Stride(k) => (1..).map(|i| i * (*k).max(1)).take_while(|p| *p < body_len).collect(),
    }
}

pub fn weighted_bool(p: f64) -> BoxedStrategy<bool> {
    prop::bool::weighted(p).boxed()
}

pub fn pickw_str(v: Vec<(u32, &'static str)>) -> BoxedStrategy<&'static str> {
    pickw(v)
}
