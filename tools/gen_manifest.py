#!/usr/bin/env python3
"""Regenerates /verif/MANIFEST.json from the table below (kept in one place so the manifest stays consistent)."""
import json, subprocess, os

HERE = os.path.dirname(os.path.dirname(os.path.abspath(__file__)))

# id -> (technique, level text, level note, design ref)
CHECKS = {
 "C13": ("exhaustive small-scope enumeration + seeded proptest generation against a reference fold (M-headers)",
         "Exploration: every header list of length <=3 over a 3-name/3-value alphabet crossed with every filter sequence of length <=2 (quick) / <=3 (thorough) is enumerated, plus random longer cases; output compared for equality with a reference fold through both public entry points. Complete inside the enumerated scope, sampling beyond it.",
         "Header names are ASCII; rewritten/appended headers are compared case-insensitively on the name, untouched ones exactly.",
         "DESIGN.md section 5, C13"),
 "C16": ("exhaustive enumeration of short strings over the markup alphabet + seeded random fragment soups / byte strings, losslessness + progress oracle",
         "Exploration: all strings up to length 6/7 over a 16-symbol markup alphabet and all concatenations of up to 5/6 of 19 markup fragments are tokenised and checked for span accounting (tokens + error + remainder == input), progress (non-empty spans) and accessor totality; random long inputs and invalid UTF-8 beyond. Built with overflow checks and debug assertions.",
         "An Err from Tokenizer::next() counts as a clean rejection only for invalid UTF-8.",
         "DESIGN.md section 5, C16"),
}
PENDING = {}  # id -> reason (properties whose check is still under construction)

def main():
    props = [json.loads(l) for l in open(os.path.join(HERE, "properties.jsonl"))]
    try:
        hook_commits = subprocess.check_output(["git", "-C", "/repo", "log", "--format=%H", "--grep=verif-hooks"], text=True).split()
    except Exception:
        hook_commits = []
    checks = []
    na = []
    for p in props:
        pid = p["id"]
        if pid in CHECKS:
            tech, text, note, ref = CHECKS[pid]
            checks.append({
                "property_id": pid,
                "quick_cmd": f"./check {pid} --tier quick",
                "thorough_cmd": f"./check {pid} --tier thorough",
                "evidence_file": f"/verif/evidence/{pid}.json",
                "replay_cmd_template": f"./check {pid} --replay {{path}}",
                "engine": "rio-check",
                "level_claimed": {"category": "exploration", "text": text, "design_ref": ref},
                "level_note": note,
                "technique": tech,
            })
        else:
            na.append({"property_id": pid, "reason": PENDING.get(pid, "check under construction in this session; not claimed yet")})
    m = {
        "version": 1,
        "setup_cmd": "./check --setup",
        "hooks": {
            "guard": "cargo feature verif-hooks (off by default)",
            "enable": "the harness crate /verif/harness depends on redirectionio = { path = \"/repo\" } with feature verif-hooks (harness feature `hooks`, on by default); every ./check invocation runs cargo build first, so it rebuilds from /repo's working tree",
            "baseline_off_cmd": "cd /repo && cargo test --workspace --no-fail-fast --offline",
            "source_commits": hook_commits,
            "add_only": True,
        },
        "engines": [
            {"name": "rio-check", "path": "/verif/harness", "serves_properties": sorted(CHECKS.keys()),
             "kind_free_text": "Rust binary: seeded proptest drivers (TestRunner per worker thread, failure_persistence off), small-scope exhaustive enumerators, reference models, evidence writer, replay"},
        ],
        "checks": checks,
        "not_applicable": na,
        "notes": "Exit 0 = held on everything explored, 1 = VIOLATION line printed, 2 = infrastructure trouble. VERIF_SEED selects the PRNG stream (default 0). Known findings: /verif/known_findings.json.",
    }
    json.dump(m, open(os.path.join(HERE, "MANIFEST.json"), "w"), indent=1)
    print("wrote MANIFEST.json:", len(checks), "checks,", len(na), "unclaimed")

if __name__ == "__main__":
    main()
