extern crate redirectionio;

use redirectionio::RouterConfig;
use redirectionio::action::Action;
use redirectionio::api::Rule;
use redirectionio::http::Request;
use redirectionio::router::Router;
use std::collections::HashSet;

struct Rng(u64);
impl Rng {
    fn next(&mut self) -> u64 {
        self.0 ^= self.0 << 13;
        self.0 ^= self.0 >> 7;
        self.0 ^= self.0 << 17;
        self.0
    }
    fn below(&mut self, n: usize) -> usize {
        (self.next() % n as u64) as usize
    }
    fn pick<'a, T>(&mut self, items: &'a [T]) -> &'a T {
        &items[self.below(items.len())]
    }
    fn chance(&mut self, percent: usize) -> bool {
        self.below(100) < percent
    }
    fn shuffle<T>(&mut self, items: &mut Vec<T>) {
        for i in (1..items.len()).rev() {
            let j = self.below(i + 1);
            items.swap(i, j);
        }
    }
}

const PATHS: &[&str] = &[
    "/a", "/ab", "/a/b", "/a/@m", "/a/@m/c", "/@m", "/a@m", "/a/b/@m", "/a/@m/@n", "/A/b", "/a/B/@m", "/a-b/@m", "/a.b", "/a.b/@m", "/a/@mm", "/é/@m",
    "/a/(x)/@m", "/a/[x]/@m", "/a/b/c", "/a/@m/c/d", "/a/@n",
];
const REGEXES: &[&str] = &[
    "[a-z]+", "[a-z]+?", ".+", ".*", "[0-9]+", "(a|b)+", "[^/]+", "a?", "(?:x|y)", "[a-z\\]]+", "\\d+", "[A-Z]+", "b", "(b|c)", "[a-z(]+", "[]a-z]+",
    "[[:alpha:]]+", "x|b", "b/c", "[é]+",
];
const QUERIES: &[&str] = &["a=1", "b=2&a=1", "A=1", "a=@m"];
const REQ_PATHS: &[&str] = &[
    "/a", "/ab", "/a/b", "/a/b/c", "/a/x/c", "/a/b/c/d", "/b", "/A/b", "/A/B", "/a/B/b", "/a-b/b", "/a.b", "/a.b/b", "/a/12", "/a/b/b", "/ab", "/ac", "/a/", "/a/b?a=1",
    "/a/b?a=1&b=2", "/a?a=1", "/a/b?A=1", "/a/b?a=b", "/a/(x)/b", "/a/[x]/b", "/%C3%A9/b", "/a/b/12", "/a/b/", "/a/x", "/a/x/y", "/a/b?utm_source=x", "/x",
];
const HOSTS: &[&str] = &["example.com", "@m.example.com", "Example.com", "www.@m.com", "@m.example.@n"];
const REQ_HOSTS: &[&str] = &["example.com", "b.example.com", "Example.com", "www.b.com", "other.org", "b.example.b"];

fn gen_rule(rng: &mut Rng, id: usize) -> String {
    let mut source = vec![format!("\"path\":{}", serde_json::to_string(rng.pick(PATHS)).unwrap())];
    if rng.chance(15) {
        source.push(format!("\"query\":\"{}\"", rng.pick(QUERIES)));
    }
    if rng.chance(25) {
        source.push(format!("\"host\":\"{}\"", rng.pick(HOSTS)));
    }
    if rng.chance(15) {
        source.push(format!("\"scheme\":\"{}\"", rng.pick(&["http", "https"])));
    }
    if rng.chance(20) {
        source.push(format!("\"methods\":{}", rng.pick(&["[\"GET\"]", "[\"GET\",\"POST\"]", "[\"POST\"]", "[\"GET\",\"GET\"]"])));
        if rng.chance(30) {
            source.push("\"exclude_methods\":true".to_string());
        }
    }
    if rng.chance(15) {
        source.push(format!(
            "\"ips\":{}",
            rng.pick(&[
                r#"[{"in_range":"10.0.0.0/8"}]"#,
                r#"[{"in_range":"10.0.0.0/8"},{"in_range":"10.1.0.0/16"}]"#,
                r#"[{"not_in_range":"10.0.0.0/8"}]"#,
                r#"[{"in_range":"10.0.0.0/8"},{"not_in_range":"10.1.0.0/16"}]"#,
            ])
        ));
    }
    if rng.chance(15) {
        source.push(format!(
            "\"headers\":{}",
            rng.pick(&[
                r#"[{"name":"X-A","type":"is_defined","value":null}]"#,
                r#"[{"name":"X-A","type":"is_equals","value":"Foo"}]"#,
                r#"[{"name":"x-a","type":"match_regex","value":"f@m"}]"#,
                r#"[{"name":"X-B","type":"is_not_defined","value":null},{"name":"X-A","type":"contains","value":"o"}]"#,
            ])
        ));
    }
    if rng.chance(25) {
        source.push(format!("\"response_status_codes\":{}", rng.pick(&["[404]", "[200,404]", "[]"])));
        if rng.chance(30) {
            source.push("\"exclude_response_status_codes\":true".to_string());
        }
    }

    let mut rule = vec![
        format!("\"id\":\"r{}\"", id),
        format!("\"rank\":{}", rng.below(3)),
        format!("\"source\":{{{}}}", source.join(",")),
        format!(
            "\"markers\":[{{\"name\":\"m\",\"regex\":{}}},{{\"name\":\"n\",\"regex\":{}}},{{\"name\":\"mm\",\"regex\":{}}}]",
            serde_json::to_string(rng.pick(REGEXES)).unwrap(),
            serde_json::to_string(rng.pick(REGEXES)).unwrap(),
            serde_json::to_string(rng.pick(REGEXES)).unwrap()
        ),
    ];
    if rng.chance(50) {
        rule.push(format!("\"status_code\":{}", rng.pick(&[301, 302, 410, 0])));
        rule.push(format!("\"target\":\"{}\"", rng.pick(&["/t", "/t/@m", "/t/@m@n", "/t?x=@mm#f", ""])));
    }
    if rng.chance(40) {
        rule.push(format!(
            "\"header_filters\":[{{\"action\":\"{}\",\"header\":\"X-T\",\"value\":\"v{}-@m\"}}]",
            rng.pick(&["add", "override", "remove", "replace"]),
            id
        ));
    }
    if rng.chance(15) {
        rule.push(format!("\"log_override\":{}", rng.pick(&["true", "false"])));
    }
    if rng.chance(10) {
        rule.push("\"reset\":true".to_string());
    }
    if rng.chance(10) {
        rule.push("\"stop\":true".to_string());
    }

    format!("{{{}}}", rule.join(","))
}

fn gen_config(rng: &mut Rng) -> RouterConfig {
    let json = format!(
        r#"{{"always_match_any_host":{},"ignore_header_case":{},"ignore_host_case":{},"ignore_marketing_query_params":{},"ignore_path_and_query_case":{},"pass_marketing_query_params_to_target":{}}}"#,
        rng.chance(50),
        rng.chance(50),
        rng.chance(50),
        rng.chance(50),
        rng.chance(50),
        rng.chance(50)
    );
    serde_json::from_str(&json).unwrap()
}

fn gen_request(rng: &mut Rng, config: &RouterConfig) -> Request {
    let host = if rng.chance(60) { Some(rng.pick(REQ_HOSTS).to_string()) } else { None };
    let scheme = if rng.chance(50) { Some(rng.pick(&["http", "https"]).to_string()) } else { None };
    let method = if rng.chance(70) { Some(rng.pick(&["GET", "POST", "PUT"]).to_string()) } else { None };
    let ip = if rng.chance(50) { Some(rng.pick(&["10.1.2.3", "10.2.0.1", "192.168.0.1"]).parse().unwrap()) } else { None };
    let path = rng.pick(REQ_PATHS).to_string();
    let mut request = Request::new(
        redirectionio::http::PathAndQueryWithSkipped::from_config(&RouterConfig::default(), &path),
        path,
        host,
        scheme,
        method,
        ip,
        None,
    );
    if rng.chance(40) {
        request.add_header("X-A".to_string(), rng.pick(&["Foo", "foo", "fb", "bar"]).to_string(), false);
    }
    if rng.chance(15) {
        request.add_header("x-b".to_string(), "1".to_string(), false);
    }
    request.created_at = None;
    Request::rebuild_with_config(config, &request)
}

fn action_of(router: &Router<Rule>, request: &Request, reverse: bool) -> (String, Vec<String>) {
    let mut matched = router.match_request(request);
    let mut ids: Vec<String> = matched.iter().map(|r| r.id().to_string()).collect();
    ids.sort();
    if reverse {
        matched.reverse();
    }
    let action = Action::from_routes_rule(matched, request, None);
    (serde_json::to_string(&action).unwrap(), ids)
}

fn build(config: &RouterConfig, rules: &[String], order: &[usize]) -> Router<Rule> {
    let mut router = Router::<Rule>::from_config(config.clone());
    for i in order {
        router.insert(serde_json::from_str::<Rule>(&rules[*i]).expect(&rules[*i]));
    }
    router
}

// Differential fuzz, about 5 minutes in a debug build: run with `-- --ignored`. It passes (no defect found there).
#[test]
#[ignore]
fn fuzz_orders_and_histories() {
    let mut failures = 0;
    for seed in 1..=400u64 {
        let mut rng = Rng(seed.wrapping_mul(0x9E3779B97F4A7C15) | 1);
        let config = gen_config(&mut rng);
        let n = 2 + rng.below(14);
        let rules: Vec<String> = (0..n).map(|i| gen_rule(&mut rng, i)).collect();
        let extra: Vec<String> = (0..(1 + rng.below(8))).map(|i| gen_rule(&mut rng, 100 + i)).collect();
        let base_order: Vec<usize> = (0..n).collect();
        let reference = build(&config, &rules, &base_order);

        let mut variants: Vec<(String, Router<Rule>)> = Vec::new();
        let mut shuffled = base_order.clone();
        rng.shuffle(&mut shuffled);
        variants.push((format!("shuffled {:?}", shuffled), build(&config, &rules, &shuffled)));
        let reversed: Vec<usize> = base_order.iter().rev().cloned().collect();
        variants.push(("reversed".to_string(), build(&config, &rules, &reversed)));

        // cached
        let mut cached = build(&config, &rules, &base_order);
        cached.cache(Some(3));
        variants.push(("cache(3)".to_string(), cached));
        let mut cached = build(&config, &rules, &shuffled);
        cached.cache(None);
        variants.push(("cache(None)".to_string(), cached));

        // history: extra rules interleaved, then removed one by one
        {
            let mut all: Vec<String> = rules.iter().cloned().chain(extra.iter().cloned()).collect();
            rng.shuffle(&mut all);
            let mut router = Router::<Rule>::from_config(config.clone());
            for r in &all {
                router.insert(serde_json::from_str::<Rule>(r).unwrap());
            }
            for i in 0..extra.len() {
                router.remove(&format!("r{}", 100 + i));
            }
            variants.push((format!("insert+remove {:?}", all), router));
        }
        // history: batch remove
        {
            let mut all: Vec<String> = rules.iter().cloned().chain(extra.iter().cloned()).collect();
            rng.shuffle(&mut all);
            let mut router = Router::<Rule>::from_config(config.clone());
            for r in &all {
                router.insert(serde_json::from_str::<Rule>(r).unwrap());
            }
            let ids: HashSet<String> = (0..extra.len()).map(|i| format!("r{}", 100 + i)).collect();
            router.apply_change_set(Vec::new(), Vec::new(), ids);
            variants.push(("insert+batch_remove".to_string(), router));
        }
        // history: remove everything and insert again, and update through change set
        {
            let mut router = build(&config, &rules, &base_order);
            for i in &shuffled {
                router.remove(&format!("r{}", i));
            }
            for i in &shuffled {
                router.insert(serde_json::from_str::<Rule>(&rules[*i]).unwrap());
            }
            variants.push(("remove all + reinsert".to_string(), router));

            let mut router = Router::<Rule>::from_config(config.clone());
            // start from the extra rules renamed to the ids of the rules, then update all of them
            for (i, r) in extra.iter().enumerate() {
                if i < n {
                    let renamed = r.replacen(&format!("\"id\":\"r{}\"", 100 + i), &format!("\"id\":\"r{}\"", i), 1);
                    router.insert(serde_json::from_str::<Rule>(&renamed).unwrap());
                }
            }
            let k = extra.len().min(n);
            let updated: Vec<Rule> = (0..k).map(|i| serde_json::from_str::<Rule>(&rules[i]).unwrap()).collect();
            let added: Vec<Rule> = (k..n).map(|i| serde_json::from_str::<Rule>(&rules[i]).unwrap()).collect();
            router.apply_change_set(added, updated, HashSet::new());
            variants.push(("change set update".to_string(), router));
        }

        for _ in 0..60 {
            let request = gen_request(&mut rng, &config);
            let (expected, expected_ids) = action_of(&reference, &request, false);
            let (permuted, _) = action_of(&reference, &request, true);
            if permuted != expected {
                failures += 1;
                println!("seed {seed}: PERMUTATION differs\n req {:?}\n a {expected}\n b {permuted}", request);
            }
            for (name, router) in &variants {
                let (got, ids) = action_of(router, &request, false);
                if got != expected {
                    failures += 1;
                    if failures < 6 {
                        println!(
                            "seed {seed}: variant {name} differs\n config {:?}\n rules {:#?}\n req path {:?} host {:?} scheme {:?} method {:?} ip {:?} headers {:?}\n ids expected {:?} got {:?}\n a {expected}\n b {got}",
                            config, rules, request.path_and_query_skipped, request.host, request.scheme, request.method, request.remote_addr, request.headers, expected_ids, ids
                        );
                    }
                }
            }
        }
    }
    assert_eq!(failures, 0);
}

fn simple_request(config: &RouterConfig, path: &str, ip: Option<&str>) -> Request {
    let mut request = Request::from_config(config, path.to_string(), None, None, Some("GET".to_string()), ip.map(|i| i.parse().unwrap()), None);
    request.created_at = None;
    request
}

/// Finding 1: the action of the trace path (explain request, impact) breaks rank ties by hash map order
#[test]
fn f1_trace_action_does_not_break_rank_ties_by_id() {
    use redirectionio::action::TraceAction;

    let config = RouterConfig::default();
    let rules = [
        r#"{"id":"rule-a","rank":5,"source":{"path":"/a"},"status_code":301,"target":"/target-of-a"}"#,
        r#"{"id":"rule-b","rank":5,"source":{"path":"/a"},"status_code":302,"target":"/target-of-b"}"#,
    ];
    let request = simple_request(&config, "/a", None);
    let mut real_actions = HashSet::new();
    let mut trace_actions = HashSet::new();
    let mut disagreements = 0;

    for _ in 0..40 {
        // same rules, same insertion order, a new router each time (a new hash map seed each time)
        let mut router = Router::<Rule>::from_config(config.clone());
        for rule in rules {
            router.insert(serde_json::from_str::<Rule>(rule).unwrap());
        }

        let mut action = Action::from_routes_rule(router.match_request(&request), &request, None);
        let real = serde_json::to_value(&action).unwrap();

        let traces = router.trace_request(&request);
        let trace_actions_list = TraceAction::from_trace_rules(&traces, &request);
        let last = serde_json::to_value(trace_actions_list.last().unwrap()).unwrap();
        let traced = last["action"].clone();

        if traced != real {
            disagreements += 1;
        }

        real_actions.insert(real.to_string());
        trace_actions.insert(traced.to_string());
        assert_eq!(action.get_status_code(0, None), 301, "rule-b then rule-a: the smaller id is applied last");
    }

    println!("distinct real actions: {}, distinct final trace actions: {}, disagreements: {}/40", real_actions.len(), trace_actions.len(), disagreements);
    for a in &trace_actions {
        println!("  trace action: {a}");
    }
    assert_eq!(real_actions.len(), 1, "from_routes_rule is deterministic");
    assert_eq!(trace_actions.len(), 1, "the final action of the trace must not depend on the hash map order");
    assert_eq!(disagreements, 0, "the final action of the trace must be the action of the request");
}

/// Finding 2: inserting an id which is already there keeps the old route in the matcher; both versions match,
/// they compare equal (same rank and id), so nothing orders them
#[test]
fn f2_reinserted_id_is_applied_twice_in_hash_map_order() {
    let config = RouterConfig::default();
    let v1 = r#"{"id":"rule-1","rank":1,"source":{"path":"/a","ips":[{"in_range":"10.0.0.0/8"}]},"status_code":301,"target":"/old"}"#;
    let v2 = r#"{"id":"rule-1","rank":1,"source":{"path":"/a","ips":[{"in_range":"10.1.0.0/16"}]},"status_code":302,"target":"/new"}"#;
    let request = simple_request(&config, "/a", Some("10.1.2.3"));
    let mut actions = HashSet::new();
    let mut matched_counts = HashSet::new();
    let mut permutation_differs = 0;
    let mut rebuilt_differs = 0;

    for _ in 0..40 {
        let mut router = Router::<Rule>::from_config(config.clone());
        router.insert(serde_json::from_str::<Rule>(v1).unwrap());
        router.insert(serde_json::from_str::<Rule>(v2).unwrap());
        assert_eq!(router.len(), 1);

        let matched = router.match_request(&request);
        matched_counts.insert(matched.len());
        let mut reversed = matched.clone();
        reversed.reverse();

        let action = serde_json::to_string(&Action::from_routes_rule(matched, &request, None)).unwrap();
        let action_reversed = serde_json::to_string(&Action::from_routes_rule(reversed, &request, None)).unwrap();

        if action != action_reversed {
            permutation_differs += 1;
        }

        // rebuild a router from the rules this router says it holds
        let mut rebuilt = Router::<Rule>::from_config(config.clone());
        for route in router.routes().values() {
            rebuilt.insert(route.handler().clone());
        }
        let action_rebuilt = serde_json::to_string(&Action::from_routes_rule(rebuilt.match_request(&request), &request, None)).unwrap();

        if action != action_rebuilt {
            rebuilt_differs += 1;
        }

        actions.insert(action);
    }

    println!("matched counts {:?}, distinct actions {}, permutation differs {}/40, rebuilt differs {}/40", matched_counts, actions.len(), permutation_differs, rebuilt_differs);
    for a in &actions {
        println!("  action: {a}");
    }
    assert_eq!(matched_counts, HashSet::from([1]), "one rule id, one matched route");
    assert_eq!(actions.len(), 1);
    assert_eq!(permutation_differs, 0);
    assert_eq!(rebuilt_differs, 0);
}
