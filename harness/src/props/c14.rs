//! C14 — filtering a compressed body equals filtering its decompressed form.
use crate::bodyfilter::*;
use crate::dom::*;
use crate::engine::*;
use crate::props::c15;
use proptest::prelude::*;
use redirectionio::api::BodyFilter;
use redirectionio::filter::FilterBodyAction;
use redirectionio::http::Header;
use serde::{Deserialize, Serialize};
use serde_json::Value;
use std::io::{Cursor, Read, Write};

#[derive(Serialize, Deserialize, Clone, Debug, PartialEq)]
pub struct Case {
    pub doc: String,
    /// repeat the document this many times (highly repetitive large bodies)
    pub repeat: u16,
    /// append this many pseudo-random (incompressible) characters inside a trailing comment, derived from `noise_seed`
    pub noise: u32,
    pub noise_seed: u64,
    pub filters: Vec<Value>,
    /// "gzip" | "deflate" | "br" or an unsupported value
    pub encoding: String,
    /// header value as sent (spelling)
    pub header_value: String,
    pub header_name: String,
    /// flate2 level 0..9 / brotli quality 0..11
    pub level: u8,
    /// brotli window 10..24
    pub window: u8,
    pub schedule: Schedule,
    /// round 4: Content-Type of the response: 0 text/html, 1 absent, 2 text/plain, 3 application/json (only text filters apply to the last two)
    #[serde(default)]
    pub ct_kind: u8,
    /// set in the witness of the known finding: the D7 exclusions are not applied
    #[serde(default)]
    pub no_exclusions: bool,
}

pub fn body_of(case: &Case) -> String {
    let mut b = case.doc.repeat(case.repeat.max(1) as usize);
    if case.noise > 0 {
        let mut sm = Sm(case.noise_seed);
        b.push_str("<!-- ");
        const AL: &[u8] = b"abcdefghijklmnopqrstuvwxyzABCDEFGHIJKLMNOPQRSTUVWXYZ0123456789+/";
        for _ in 0..case.noise {
            b.push(AL[(sm.next() % 64) as usize] as char);
        }
        b.push_str(" -->");
    }
    b
}

pub fn compress(data: &[u8], enc: &str, level: u8, window: u8) -> Vec<u8> {
    match enc {
        "gzip" => {
            // one case in three: the body as two gzip members (a valid gzip stream: RFC 1952, 2.2), cut at a generated point
            let cut = if window % 3 == 0 && data.len() >= 2 { Some(1 + (window as usize * 7919) % (data.len() - 1)) } else { None };
            let member = |part: &[u8]| {
                let mut e = flate2::write::GzEncoder::new(Vec::new(), flate2::Compression::new(level.min(9) as u32));
                e.write_all(part).unwrap();
                e.finish().unwrap()
            };
            match cut {
                Some(c) => [member(&data[..c]), member(&data[c..])].concat(),
                None => member(data),
            }
        }
        "deflate" => {
            let mut e = flate2::write::ZlibEncoder::new(Vec::new(), flate2::Compression::new(level.min(9) as u32));
            e.write_all(data).unwrap();
            let mut z = e.finish().unwrap();
            // producers with a smaller window: flate2's encoder always declares 32 KiB (first byte 0x78), but a stream whose
            // back-references all stay inside a smaller window may declare that window (CINFO = log2(window) - 8). A body
            // no longer than the window cannot reach further back, so its header can be rewritten (check bits recomputed)
            let w = window.clamp(8, 15);
            if w < 15 && data.len() <= (1usize << w) && z.len() >= 2 && z[0] & 0x0f == 8 {
                z[0] = ((w - 8) << 4) | 8;
                z[1] &= 0xe0;
                let rem = ((z[0] as u16) * 256 + z[1] as u16) % 31;
                if rem != 0 {
                    z[1] += (31 - rem) as u8;
                }
            }
            z
        }
        _ => {
            let mut out = Vec::new();
            {
                let mut w = brotli::CompressorWriter::new(&mut out, 4096, level.min(11) as u32, window.clamp(10, 24) as u32);
                w.write_all(data).unwrap();
                w.flush().unwrap();
            }
            out
        }
    }
}

/// Independent decoder instance: must accept `data` as ONE complete stream with nothing left over.
pub fn decompress_complete(data: &[u8], enc: &str) -> Result<Vec<u8>, String> {
    let mut out = Vec::new();
    match enc {
        "gzip" => {
            // member by member (RFC 1952, 2.2: a gzip file is a series of members); anything that is not a member is left over
            let mut rest = data;
            loop {
                let mut d = flate2::bufread::GzDecoder::new(rest);
                d.read_to_end(&mut out).map_err(|e| format!("gzip stream invalid or truncated: {e}"))?;
                rest = d.into_inner();
                if rest.is_empty() {
                    break;
                }
                if rest.len() < 2 || rest[0] != 0x1f || rest[1] != 0x8b {
                    return Err(format!("{} bytes left over after the gzip stream", rest.len()));
                }
            }
        }
        "deflate" => {
            let mut d = flate2::bufread::ZlibDecoder::new(data);
            d.read_to_end(&mut out).map_err(|e| format!("zlib stream invalid or truncated: {e}"))?;
            if d.total_in() as usize != data.len() {
                return Err(format!("{} bytes left over after the zlib stream", data.len() - d.total_in() as usize));
            }
        }
        _ => {
            // 1-byte read buffer: the reader is consumed exactly up to the end of the stream
            let mut cur = Cursor::new(data);
            {
                let mut d = brotli::Decompressor::new(&mut cur, 1);
                d.read_to_end(&mut out).map_err(|e| format!("brotli stream invalid or truncated: {e}"))?;
            }
            if cur.position() as usize != data.len() {
                return Err(format!("{} bytes left over after the brotli stream", data.len() - cur.position() as usize));
            }
        }
    }
    Ok(out)
}

pub const D7: &str = "d7-decoded-chunk-boundary-inside-comment-or-raw-text";

/// Known finding D7 (see C03) also reaches this property: the decoder hands the plain text to the HTML stage in chunks of
/// its own choosing, so a boundary can fall inside a comment or script. While the finding is listed, comments and raw-text
/// elements are generated without markup inside (then a lost tokenizer context cannot change the output).
fn neutralise(nodes: &mut [Node], count: &mut u32) {
    for n in nodes.iter_mut() {
        match n {
            Node::Comment(c) => {
                if c.starts_with("<!--") && c[4..].contains('<') {
                    *c = "<!-- c -->".to_string();
                    *count += 1;
                } else if c.starts_with("<![CDATA[") {
                    *c = "<![CDATA[ c ]]>".to_string();
                    *count += 1;
                }
            }
            Node::Raw(_, content, _) => {
                if content.contains('<') {
                    *content = "var a = 1 > 0;".to_string();
                    *count += 1;
                }
            }
            Node::Elem(e) => neutralise(&mut e.children, count),
            _ => {}
        }
    }
}

fn lib_filters(filters: &[Value]) -> Vec<BodyFilter> {
    filters.iter().filter_map(|f| serde_json::from_value(f.clone()).ok()).collect()
}

pub fn check(case: &Case) -> Outcome {
    let mut out = Outcome::new();
    let body = body_of(case);
    let supported = ["gzip", "deflate", "br"].contains(&case.header_value.to_lowercase().as_str());
    let ct = Header { name: if case.ct_kind == 1 { "X-No-Content-Type".into() } else { "Content-Type".into() }, value: ["text/html; charset=utf-8", "-", "text/plain", "application/json"][case.ct_kind as usize % 4].into() };
    if case.ct_kind != 0 {
        out.class(["", "content-type-absent", "content-type-text/plain", "content-type-application/json"][case.ct_kind as usize % 4]);
    }
    let ce = Header { name: case.header_name.clone(), value: case.header_value.clone() };
    let plain_run = run_schedule(&case.filters, &[ct.clone()], body.as_bytes(), &Schedule::Whole);
    let plain = plain_run.out.clone();
    if !supported {
        // unsupported encoding: no filter is created, the (opaque) body passes through untouched
        let opaque = compress(body.as_bytes(), "gzip", 6, 22);
        let f = FilterBodyAction::new(lib_filters(&case.filters), &[ct.clone(), ce.clone()]);
        if !f.is_empty() {
            out.fail(format!("Content-Encoding {:?} is not supported but a filter chain was created", case.header_value));
            return out;
        }
        let r = run_schedule(&case.filters, &[ct, ce], &opaque, &case.schedule);
        if r.out != opaque {
            out.fail(format!("Content-Encoding {:?} is not supported but the body was modified", case.header_value));
        }
        out.class("unsupported-encoding");
        return out;
    }
    if !case.no_exclusions && crate::known::is_listed("C14", D7) && (!d7_zone_texts(body.as_bytes()).is_empty() || d7_zone_created_by_chain(&case.filters, &[ct.clone()], body.as_bytes())) {
        // D7 (listed): the stages re-chunk the text at boundaries the harness cannot steer
        out.class("excluded:D7-zone-in-a-stage-input");
        return out;
    }
    let enc = case.encoding.as_str();
    let compressed = compress(body.as_bytes(), enc, case.level, case.window);
    let r = run_schedule(&case.filters, &[ct, ce], &compressed, &case.schedule);
    if r.created_empty {
        // no applicable filter: nothing is created and the stream passes through
        if !plain_run.created_empty {
            out.fail(format!("{} {:?}: no filter chain is created for the compressed response although the filters {} apply to the plain body", case.header_name, case.header_value, Value::from(case.filters.clone())));
            return out;
        }
        if r.out != compressed {
            out.fail("no filter applies but the compressed stream was modified".to_string());
        }
        out.class("no-filter");
        return out;
    }
    match decompress_complete(&r.out, enc) {
        Err(e) => {
            out.fail(format!(
                "{enc} level {} window {} schedule {:?} filters {}: output is not one complete valid stream: {e} (body {} bytes, compressed {} bytes, output {} bytes)",
                case.level,
                case.window,
                case.schedule,
                Value::from(case.filters.clone()),
                body.len(),
                compressed.len(),
                r.out.len()
            ));
            return out;
        }
        Ok(dec) => {
            if dec != plain {
                let at = dec.iter().zip(plain.iter()).position(|(a, b)| a != b).unwrap_or(dec.len().min(plain.len()));
                out.fail(format!(
                    "{enc} level {} window {} schedule {:?} filters {}: decompressed output ({} bytes) differs from the filtered plain body ({} bytes) at offset {at}: {:?} vs {:?}",
                    case.level,
                    case.window,
                    case.schedule,
                    Value::from(case.filters.clone()),
                    dec.len(),
                    plain.len(),
                    String::from_utf8_lossy(&dec[at.saturating_sub(20)..(at + 40).min(dec.len())]),
                    String::from_utf8_lossy(&plain[at.saturating_sub(20)..(at + 40).min(plain.len())])
                ));
                return out;
            }
        }
    }
    let acted = plain != body.as_bytes();
    let cuts = cut_positions(compressed.len(), &case.schedule);
    let edge_cut = cuts.iter().any(|c| (*c > 0 && *c < 10) || (*c + 8 > compressed.len() && *c < compressed.len()));
    out.class(match enc {
        "gzip" => "gzip",
        "deflate" => "deflate",
        _ => "br",
    });
    if acted {
        out.class("filters-acted");
    }
    if case.filters.iter().any(|f| f["action"].as_str().is_some_and(|a| a.ends_with("_text"))) {
        out.class("with-whole-body-text-filter");
    }
    if edge_cut {
        out.class("cut-in-codec-header-or-trailer");
    }
    if body.len() > 32 * 1024 {
        out.class("body>32KiB");
    }
    out.nontrivial = acted && edge_cut;
    out
}

fn schedule_strategy() -> BoxedStrategy<Schedule> {
    prop_oneof![
        1 => Just(Schedule::Whole),
        3 => Just(Schedule::Bytewise),
        2 => pick(vec![1usize, 2, 3, 7, 10, 4096]).prop_map(Schedule::Stride),
        3 => (0usize..12).prop_map(Schedule::Two),
        3 => prop::collection::vec(0usize..3000, 1..6).prop_map(Schedule::Cuts),
        // cuts measured from the end are produced by large values (clamped): trailer cuts
        2 => (0usize..10).prop_map(|k| Schedule::Cuts(vec![usize::MAX / 2 - k])),
    ]
    .boxed()
}

pub fn strategy() -> BoxedStrategy<Case> {
    let enc = pickw(vec![
        (4u32, ("gzip", "gzip")),
        (1, ("gzip", "GZIP")),
        (4, ("deflate", "deflate")),
        (1, ("deflate", "Deflate")),
        (4, ("br", "br")),
        (1, ("br", "BR")),
        (1, ("none", "identity")),
        (1, ("none", "zstd")),
        (1, ("none", "compress")),
        (1, ("none", "gzip, br")),
        (1, ("none", " gzip")),
        (1, ("none", "x-gzip")),
        (1, ("none", "X-GZIP")),
        (1, ("none", "x-deflate")),
        (1, ("none", "bzip2")),
    ]);
    // the last two classes hand the re-encoder more than 64 KiB of poorly compressible text in one call
    let size = pickw(vec![(24u32, (1u16, 0u32)), (4, (1, 3000)), (2, (40, 0)), (2, (200, 20000)), (2, (0, 0)), (1, (1, 70_000)), (1, (2, 100_000))]);
    // whole-body text filters (append / prepend / replace) placed among the HTML filters in 35% of the cases
    let text = prop_oneof![13 => Just(Vec::new()), 7 => prop::collection::vec((0u8..3, any::<u8>()), 1..3)];
    (c15::strategy(), enc, pick(vec!["Content-Encoding", "content-encoding", "CONTENT-ENCODING"]), 0u8..12, 10u8..25, schedule_strategy(), size, any::<u64>(), text)
        .prop_map(|(c, (encoding, header_value), header_name, level, window, schedule, (repeat, noise), noise_seed, text)| {
            let mut nodes = c.doc.clone();
            let mut filters = c.filters.clone();
            if crate::known::is_listed("C14", D7) {
                let mut n = 0;
                neutralise(&mut nodes, &mut n);
                for f in filters.iter_mut() {
                    neutralise(&mut f.value, &mut n);
                }
            }
            let c = c15::Case { doc: nodes, filters, content_type: c.content_type };
            let doc = if repeat == 0 { String::new() } else { serialize(&c.doc) };
            // cuts given from the end: translate lazily in check via clamping; here keep as is
            Case {
                doc,
                repeat,
                noise,
                noise_seed,
                filters: {
                    let mut fs: Vec<Value> = c.filters.iter().map(|f| f.to_json()).collect();
                    for (i, (kind, at)) in text.iter().enumerate() {
                        let (action, content) = match kind {
                            0 => ("append_text", format!("<!--t{i}-->")),
                            1 => ("prepend_text", format!("[t{i} \u{e9}]")),
                            _ => ("replace_text", format!("<html><head><title>r{i}</title></head><body><div class=\"sel-hit\">R{i}</div></body></html>")),
                        };
                        let pos = (*at as usize * (fs.len() + 1)) >> 8;
                        fs.insert(pos, serde_json::json!({"action": action, "content": content, "id": format!("tf{i}"), "target_hash": "text"}));
                    }
                    fs
                },
                encoding: encoding.to_string(),
                header_value: header_value.to_string(),
                header_name: header_name.to_string(),
                level,
                window,
                schedule,
                ct_kind: match (noise_seed >> 32) % 10 {
                    0 => 1,
                    1 => 2,
                    2 => 3,
                    _ => 0,
                },
                no_exclusions: false,
            }
        })
        .boxed()
}

pub fn run(ctx: &Ctx) -> Report {
    let mut rep = Report::new(
        "C14",
        "case = generated document (0 B .. ~170 KiB: single, repeated 40x/200x, with up to 100000 incompressible characters, so that single calls of the re-encoder exceed its staging buffer) x filters that find their target (HTML filters, in 35% of the cases with append_text / prepend_text / replace_text filters placed among them) x encoding in {gzip, deflate(zlib), br} x producer settings (flate2 level 0..9, zlib streams declaring windows of 2^8..2^15 bytes, a third of the gzip bodies as two members, brotli quality 0..11, window 10..24) x header spellings \
         x schedule over the COMPRESSED stream (whole, byte-wise, strides 1/2/3/7/10/4096, cuts inside the first 12 bytes, generated k-partitions) ; also unsupported encodings (identity, zstd, compress, 'gzip, br', ' gzip', x-gzip, X-GZIP, x-deflate, bzip2); Content-Type text/html, absent, text/plain or application/json; \
         oracle = an independent decoder instance accepts the output as ONE complete stream with nothing left over and dec(out) == the same filters applied to the plain body in one chunk; unsupported encoding => no chain is created and out == in; \
         non-trivial = the filters changed the document and a cut falls inside the first 10 or the last 8 bytes of the compressed stream; distinct by case hash",
    );
    rep.assume("flate2 and brotli (independent decoder instances) judge stream validity (trusted)");
    if crate::known::is_listed("C14", D7) {
        rep.assume("while known finding D7 is listed for this property, comments / CDATA / raw-text elements are generated without markup inside (the decoder re-chunks the plain text at boundaries the harness cannot steer, so the D7 zones cannot be avoided by choosing cuts)");
    } else {
        rep.assume("since D7 was repaired (fix eadbe5a) comments, CDATA sections and raw-text elements are generated with markup inside: the decoder re-chunks the plain text at boundaries of its own, which fall inside them");
    }
    rep.add(run_part(ctx, "streams", ctx.cases(10_000, 300_000), strategy, check, &[]));
    rep
}

pub fn replay(_part: &str, case: &Value) -> Result<Outcome, String> {
    replay_case::<Case, _>(case, check)
}
