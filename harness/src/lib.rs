pub mod engine;
pub mod ffi;
pub mod gen;
pub mod mflat;
pub mod mfold;
pub mod spec;
pub mod known;
pub mod props;
