//! Router histories: an interpreter for operation sequences against the router and a model map.
use crate::gen::*;
use crate::spec::*;
use proptest::prelude::*;
use redirectionio::api::{Rule, RuleChangeSet};
use redirectionio::router::{Route, Router};
use serde::{Deserialize, Serialize};
use std::collections::{BTreeMap, BTreeSet, HashSet};
use std::sync::Arc;

pub const SLOTS: u8 = 10;
pub const VERSIONS: u8 = 3;

#[derive(Serialize, Deserialize, Clone, Debug, PartialEq)]
pub enum HOp {
    Insert { slot: u8, ver: u8 },
    Remove { slot: u8 },
    BatchRemove { slots: Vec<u8> },
    /// via: 0 = Router::apply_change_set in place, 1 = RuleChangeSet::update_existing_router(Arc) and continue with the
    /// new router (old one kept as frozen witness), 2 = same but continue with the old one (new one kept as witness)
    ChangeSet { added: Vec<(u8, u8)>, updated: Vec<(u8, u8)>, deleted: Vec<u8>, via: u8 },
    Cache { n: Option<u64> },
}

#[derive(Serialize, Deserialize, Clone, Debug, PartialEq)]
pub struct HistCase {
    pub config: ConfigSpec,
    /// SLOTS x VERSIONS rule bodies; pool[slot*VERSIONS+ver] has id "s<slot>"
    pub pool: Vec<RuleSpec>,
    pub ops: Vec<HOp>,
    pub probes: Vec<RequestSpec>,
}

pub fn slot_id(slot: u8) -> String {
    format!("s{slot}")
}

impl HistCase {
    pub fn rule(&self, slot: u8, ver: u8) -> &RuleSpec {
        &self.pool[(slot % SLOTS) as usize * VERSIONS as usize + (ver % VERSIONS) as usize]
    }
    pub fn model_rules(&self, model: &BTreeMap<u8, u8>) -> Vec<RuleSpec> {
        model.iter().map(|(s, v)| self.rule(*s, *v).clone()).collect()
    }
}

pub struct Machine {
    pub router: Router<Rule>,
    pub model: BTreeMap<u8, u8>,
    /// frozen copies: (router, model at freeze time)
    pub witnesses: Vec<(Router<Rule>, BTreeMap<u8, u8>)>,
}

pub struct StepInfo {
    pub skipped: bool,
    pub error: Option<String>,
    pub removed_live_dynamic: bool,
    pub updated_live: bool,
    pub inserted: bool,
    pub cloned: bool,
}

fn is_dynamic(r: &RuleSpec) -> bool {
    r.source.path.contains('@') || r.source.query.as_deref().map(|q| q.contains('@')).unwrap_or(false) || r.source.host.as_deref().map(|h| h.contains('@')).unwrap_or(false)
}

impl Machine {
    pub fn new(cfg: &ConfigSpec) -> Machine {
        Machine { router: Router::<Rule>::from_config(cfg.to_lib()), model: BTreeMap::new(), witnesses: Vec::new() }
    }

    /// Apply one operation to the router and to the model. `with_cache` = whether Cache ops are executed (C12 twins).
    pub fn apply(&mut self, case: &HistCase, op: &HOp, with_cache: bool) -> StepInfo {
        let mut info = StepInfo { skipped: false, error: None, removed_live_dynamic: false, updated_live: false, inserted: false, cloned: false };
        match op {
            HOp::Insert { slot, ver } => {
                let slot = slot % SLOTS;
                if self.model.contains_key(&slot) {
                    info.skipped = true; // ids stay unique among live rules
                    return info;
                }
                self.router.insert(case.rule(slot, *ver).to_lib());
                self.model.insert(slot, ver % VERSIONS);
                info.inserted = true;
            }
            HOp::Remove { slot } => {
                let slot = slot % SLOTS;
                let id = slot_id(slot);
                let was = self.model.remove(&slot);
                if let Some(v) = was {
                    info.removed_live_dynamic = is_dynamic(case.rule(slot, v));
                }
                let got: Option<Arc<Route<Rule>>> = self.router.remove(&id);
                match (was, got) {
                    (Some(_), Some(r)) => {
                        if r.id() != id {
                            info.error = Some(format!("remove({id}) returned the route {}", r.id()));
                        }
                    }
                    (None, None) => {}
                    (Some(_), None) => info.error = Some(format!("remove({id}) returned None although the rule was live")),
                    (None, Some(r)) => info.error = Some(format!("remove({id}) returned route {} although no such rule was live", r.id())),
                }
            }
            HOp::BatchRemove { slots } => {
                let ids: HashSet<String> = slots.iter().map(|s| slot_id(s % SLOTS)).collect();
                for s in slots {
                    if let Some(v) = self.model.remove(&(s % SLOTS)) {
                        info.removed_live_dynamic |= is_dynamic(case.rule(s % SLOTS, v));
                    }
                }
                self.router.batch_remove(&ids);
            }
            HOp::ChangeSet { added, updated, deleted, via } => {
                // make the change-set consistent: added = not live, updated = live, one entry per slot
                let mut seen = BTreeSet::new();
                let mut a: Vec<(u8, u8)> = Vec::new();
                let mut u: Vec<(u8, u8)> = Vec::new();
                // via >= 3: a live rule named in both `deleted` and `added` is deleted and created anew under the same id in
                // one change-set (it stays in `added` instead of being moved to `updated`)
                let recreate = *via >= 3;
                let mut recreated: Vec<u8> = Vec::new();
                for (k, (s, v)) in added.iter().chain(updated.iter()).enumerate() {
                    let s = s % SLOTS;
                    if !seen.insert(s) {
                        continue;
                    }
                    if self.model.contains_key(&s) {
                        if recreate && k < added.len() && (k == 0 || deleted.iter().any(|d| d % SLOTS == s)) {
                            a.push((s, v % VERSIONS));
                            recreated.push(s);
                        } else {
                            u.push((s, v % VERSIONS));
                        }
                    } else {
                        a.push((s, v % VERSIONS));
                    }
                }
                let mut d: Vec<u8> = deleted.iter().map(|s| s % SLOTS).filter(|s| recreated.contains(s) || !a.iter().any(|(x, _)| x == s)).collect();
                for s in &recreated {
                    if !d.contains(s) {
                        d.push(*s);
                    }
                }
                if !recreated.is_empty() {
                    info.updated_live = true;
                }
                let mut new_model = self.model.clone();
                for s in &d {
                    if let Some(v) = new_model.remove(s) {
                        info.removed_live_dynamic |= is_dynamic(case.rule(*s, v));
                    }
                }
                for (s, v) in &u {
                    info.removed_live_dynamic |= is_dynamic(case.rule(*s, self.model[s]));
                    new_model.insert(*s, *v);
                    info.updated_live = true;
                }
                for (s, v) in &a {
                    new_model.insert(*s, *v);
                    info.inserted = true;
                }
                let added_rules: Vec<Rule> = a.iter().map(|(s, v)| case.rule(*s, *v).to_lib()).collect();
                let updated_rules: Vec<Rule> = u.iter().map(|(s, v)| case.rule(*s, *v).to_lib()).collect();
                let deleted_ids: HashSet<String> = d.iter().map(|s| slot_id(*s)).collect();
                if *via % 3 == 0 {
                    self.router.apply_change_set(added_rules, updated_rules, deleted_ids);
                    self.model = new_model;
                } else {
                    info.cloned = true;
                    let existing = Arc::new(std::mem::take(&mut self.router));
                    let cs = RuleChangeSet { added: added_rules, updated: updated_rules, deleted: deleted_ids };
                    let derived = cs.update_existing_router(existing.clone());
                    let old = match Arc::try_unwrap(existing) {
                        Ok(r) => r,
                        Err(a) => (*a).clone(),
                    };
                    if self.witnesses.len() >= 2 {
                        self.witnesses.remove(0);
                    }
                    if *via % 3 == 1 {
                        self.witnesses.push((old, self.model.clone()));
                        self.router = derived;
                        self.model = new_model;
                    } else {
                        self.witnesses.push((derived, new_model));
                        self.router = old;
                    }
                }
            }
            HOp::Cache { n } => {
                if with_cache {
                    self.router.cache(*n);
                } else {
                    info.skipped = true;
                }
            }
        }
        info
    }
}

/// The same rule with every marker `m` renamed to `mq`, in its declaration and in every `@m` reference (longest name first).
pub fn rename_markers(rule: &RuleSpec) -> RuleSpec {
    let mut names: Vec<String> = rule.markers.iter().map(|m| m.name.clone()).collect();
    names.sort_by_key(|n| std::cmp::Reverse(n.len()));
    fn walk(v: &mut serde_json::Value, names: &[String]) {
        match v {
            serde_json::Value::String(s) if s.contains('@') => {
                let mut out = String::new();
                let mut rest = s.as_str();
                while let Some(i) = rest.find('@') {
                    out.push_str(&rest[..=i]);
                    rest = &rest[i + 1..];
                    if let Some(n) = names.iter().find(|n| rest.starts_with(n.as_str())) {
                        out.push_str(n);
                        out.push('q');
                        rest = &rest[n.len()..];
                    }
                }
                out.push_str(rest);
                *s = out;
            }
            serde_json::Value::Array(a) => a.iter_mut().for_each(|x| walk(x, names)),
            serde_json::Value::Object(o) => o.iter_mut().for_each(|(_, x)| walk(x, names)),
            _ => {}
        }
    }
    let mut v = serde_json::to_value(rule).unwrap();
    walk(&mut v, &names);
    if let Some(ms) = v.get_mut("markers").and_then(|m| m.as_array_mut()) {
        for m in ms {
            if let Some(n) = m.get("name").and_then(|n| n.as_str()).map(|n| format!("{n}q")) {
                m["name"] = serde_json::Value::String(n);
            }
        }
    }
    serde_json::from_value(v).unwrap()
}

fn slot_ver() -> impl Strategy<Value = (u8, u8)> {
    (0..SLOTS, 0..VERSIONS)
}

pub fn op_strategy() -> BoxedStrategy<HOp> {
    prop_oneof![
        8 => slot_ver().prop_map(|(slot, ver)| HOp::Insert { slot, ver }),
        4 => (0..SLOTS).prop_map(|slot| HOp::Remove { slot }),
        2 => prop::collection::vec(0..SLOTS, 0..4).prop_map(|slots| HOp::BatchRemove { slots }),
        5 => (prop::collection::vec(slot_ver(), 0..3), prop::collection::vec(slot_ver(), 0..3), prop::collection::vec(0..SLOTS, 0..3), 0u8..6)
            .prop_map(|(added, updated, deleted, via)| HOp::ChangeSet { added, updated, deleted, via }),
        2 => crate::engine::pick(vec![None, Some(0u64), Some(1), Some(2), Some(3), Some(5), Some(10), Some(1000)]).prop_map(|n| HOp::Cache { n }),
    ]
    .boxed()
}

pub fn hist_case_strategy(max_ops: usize) -> BoxedStrategy<HistCase> {
    let opts = RuleOpts { actions: false, dynamic_bias: true, flags: false, sampling: false, max_rank: 3 };
    let n = (SLOTS as usize) * (VERSIONS as usize);
    (config_strategy(), rules_strategy(opts, n, n), prop::collection::vec(op_strategy(), 1..=max_ops), prop::collection::vec(request_choice_strategy(), 36..=44), prop::collection::vec(0u8..10, SLOTS as usize))
        .prop_map(move |(config, mut pool, ops, choices, renamed)| {
            // round 4: in three slots out of ten, version 1 is version 0 with its markers renamed - the same matching expression,
            // other capture names (an update that a cache keyed on the matching expression would not notice)
            for (slot, r) in renamed.iter().enumerate() {
                let base = slot * VERSIONS as usize;
                if *r < 3 && !pool[base].markers.is_empty() {
                    pool[base + 1] = rename_markers(&pool[base]);
                }
            }
            // round 4: in two slots out of ten, version 0 of the slot and version 0 of the next slot are the same rule with two date
            // condition groups that share a condition ({Mon, Tue} + a time window / {Mon, Tue} alone): one bucket, two groups
            for (slot, r) in renamed.iter().enumerate() {
                let base = slot * VERSIONS as usize;
                if (3..5).contains(r) && slot + 1 < SLOTS as usize {
                    let mut a = pool[base].clone();
                    a.source.datetime = None;
                    a.source.weekdays = Some(vec!["Mon".to_string(), "Tue".to_string()]);
                    let mut b = a.clone();
                    a.source.time = Some(vec![(Some("08:30:00".to_string()), Some("12:00:01".to_string()))]);
                    b.source.time = None;
                    pool[base] = a;
                    pool[base + VERSIONS as usize] = b;
                }
            }
            for (i, r) in pool.iter_mut().enumerate() {
                r.id = slot_id((i / VERSIONS as usize) as u8);
                r.target_hash = Some(format!("ver{}", i % VERSIONS as usize));
            }
            let probes = choices
                .iter()
                .enumerate()
                .map(|(i, c)| {
                    // the first |pool| probes focus the pool rules one by one, the rest are as drawn
                    let mut c = c.clone();
                    if i < n {
                        c.focus = i as u16;
                        c.derived = true;
                    }
                    derive_request(&pool, &config, &c)
                })
                .collect();
            HistCase { config, pool, ops, probes }
        })
        .boxed()
}
